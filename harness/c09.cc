// C09 monitor: the Davidson eigensolver against dense diagonalisation
// (DESIGN.md §5 C09, §6 item 18).
// Real code: DavidsonSolver::solve / info / eigenvalues / eigenvectors /
// num_iterations (stand-alone xtp subset) on dense matrices and on a
// MatrixFreeOperator. Oracle: Eigen::SelfAdjointEigenSolver (SYMM) / a
// symmetric reduction of the BSE-form matrix [[A,B],[-B,-A]] (HAM).
//
//   --mode random --sizes small|large|late --seed S --shard k --n N   (randomised families, silent for all seeds)
//   --mode adversarial                                           (fixed deterministic set, §6 item 18)
//   --mode reuse --seed S --shard k --n N                        (several solves on one solver object)
//   --mode ompenv --env NAME --seed S --n N [--region 1] [--nested 1] [--dense 1]   (OpenMP environments)
#include "vfh.h"
#include <cfloat>
#include <omp.h>
#include <votca/xtp/davidsonsolver.h>
#include <votca/xtp/matrixfreeoperator.h>

using namespace votca::xtp;
using votca::Index;
using vfh::J;
using Eigen::MatrixXd;
using Eigen::VectorXd;
static const double EPS = DBL_EPSILON;

class DenseOp final : public MatrixFreeOperator {
 public:
  explicit DenseOp(const MatrixXd &m) : m_(m) { set_size(m.rows()); }
  MatrixXd matmul(const MatrixXd &in) const override { return m_ * in; }
  VectorXd diagonal() const override { return m_.diagonal(); }

 private:
  const MatrixXd &m_;
};

struct Cfg {
  std::string corr = "DPR", upd = "safe", tol = "normal";
  double tolv = 1e-4;
  long max_space = 0;  // 0: solver default (5*neigen)
  long iter_max = 50;
  bool ham = false, matfree = false;
  long neigen = 1;
  long guess = 0;  // size_initial_guess argument, 0 = default (2*neigen)
};
static double tol_value(const std::string &t) { return t == "loose" ? 1e-3 : t == "normal" ? 1e-4 : t == "strict" ? 1e-5 : 1e-9; }
static std::string cjson(const Cfg &c) {
  J j;
  j.s("correction", c.corr).s("size_update", c.upd).s("tolerance", c.tol).i("max_search_space", c.max_space).i("iter_max", c.iter_max).s("matrix_type", c.ham ? "HAM" : "SYMM").b("matrix_free", c.matfree).i("neigen", c.neigen).i("size_initial_guess", c.guess);
  return j.str();
}

struct Outcome {
  bool threw = false;
  std::string what;
  Eigen::ComputationInfo info = Eigen::NoConvergence;
  VectorXd ev;
  MatrixXd vec;
  long iters = 0, restarts = 0, max_space_seen = 0;
};

// restarts are observed on the solver's own iteration log (search-space column)
static void parse_log(Logger &log, const Cfg &c, long size, Outcome &o) {
  std::ostringstream os;
  os << log;
  if (getenv("C09_VERBOSE")) std::cerr << os.str() << std::endl;
  std::istringstream is(os.str());
  std::string line;
  std::vector<long> spaces;
  while (std::getline(is, line)) {
    if (line.find("% converged") == std::string::npos) continue;
    std::istringstream ls(line);
    std::vector<std::string> tok;
    std::string t;
    while (ls >> t) tok.push_back(t);
    // ... <iter> <space> <norm> <pct>% converged
    if (tok.size() >= 5) spaces.push_back(std::atol(tok[tok.size() - 4].c_str()));
  }
  long eff = c.max_space < c.neigen ? 5 * c.neigen : c.max_space;
  eff = std::min(eff, size);
  for (size_t k = 0; k < spaces.size(); ++k) {
    o.max_space_seen = std::max(o.max_space_seen, spaces[k]);
    if (k && (spaces[k] <= spaces[k - 1] || spaces[k] > eff)) o.restarts++;
  }
}

// all options through the public setters (set_max_search_space(0) restores the solver's default of 5*neigen)
static void configure(DavidsonSolver &DS, const Cfg &c, bool always_set_space) {
  DS.set_correction(c.corr);
  DS.set_size_update(c.upd);
  DS.set_tolerance(c.tol);
  if (c.max_space || always_set_space) DS.set_max_search_space(c.max_space);
  DS.set_iter_max(c.iter_max);
  DS.set_matrix_type(c.ham ? "HAM" : "SYMM");
}
template <class Op>
static Outcome run_on(DavidsonSolver &DS, Logger &log, const Op &op, const Cfg &c) {
  Outcome o;
  try {
    if (c.guess) DS.solve(op, c.neigen, c.guess);
    else DS.solve(op, c.neigen);
    o.info = DS.info();
    o.ev = DS.eigenvalues();
    o.vec = DS.eigenvectors();
    o.iters = DS.num_iterations();
  } catch (const std::exception &e) {
    o.threw = true;
    o.what = e.what();
    o.info = DS.info();
  }
  parse_log(log, c, op.rows(), o);
  return o;
}
template <class Op>
static Outcome solve_with(const Op &op, const Cfg &c) {
  Logger log;
  log.setReportLevel(votca::Log::error);
  log.setMultithreading(false);  // collect, never print to stdout
  DavidsonSolver DS(log);
  configure(DS, c, false);
  return run_on(DS, log, op, c);
}
static Outcome solve(const MatrixXd &M, const Cfg &c) {
  if (c.matfree) {
    DenseOp op(M);
    return solve_with(op, c);
  }
  return solve_with(M, c);
}

// ------------------------------------------------------------------ matrices
// element-wise coupling (in units of the diagonal gap) of the late_root family, see the rule in c09.py
static double LATE_SIGMA_MIN = 1e-3, LATE_SIGMA_MAX = 1e-1;
// ABSOLUTE element-wise coupling of the (p,q) pair to the rest. Restricted to >= 10 x the loosest tolerance (1e-3):
// in the soak on the unchanged solver every failure (151 of 16000 solves, all at 'loose') had a pair coupling
// <= 1.6e-3, i.e. below ~2 tol, where the family degenerates into the known (approximately) decoupled-block weakness.
static double LATE_PAIR_MIN = 1e-2, LATE_PAIR_MAX = 1e-1;
static double LATE_PAIR_LOW_SHARE = 0.9;  // share of pairs with a coupling in [min, 3 min]
static double LATE_TIGHT_SHARE = 0.9;    // share of solves with a tight search-space limit
static double LATE_LOOSE_SHARE = 0.8;     // share of solves at tolerance 'loose'
static long LATE_SOLVES_PER_MATRIX = 4;
struct Mat {
  std::string family;
  uint64_t gen_seed;  // the matrix is a pure function of (family parameters, gen_seed): replayable
  long n;             // dimension of the matrix handed to the solver
  MatrixXd M;
  bool ham = false;
  bool must_succeed = false;  // disjoint Gershgorin discs
  std::string params;         // json
  VectorXd ref;               // ascending reference eigenvalues (HAM: positive ones)
  double norm = 0;
  double cond = 1;  // eigenvector condition number (HAM), 1 for symmetric
  // clustered spectra: which member of a cluster is returned is judged on the deterministic set only (in the randomised
  // part the "lowest" clause is judged up to the width of a cluster); 0 for all other families
  double cluster_span = 0;
};

static MatrixXd random_orthogonal(vfh::Rng &r, long n) {
  MatrixXd G = MatrixXd::NullaryExpr(n, n, [&](Index, Index) { return r.normal(); });
  Eigen::HouseholderQR<MatrixXd> qr(G);
  MatrixXd Q = qr.householderQ();
  return Q;
}
// near-identity DENSE orthogonal matrix: Cayley transform of a random skew matrix of norm ~angle
// (dense on purpose: no unit vector is an exact eigenvector of any principal sub-matrix)
static MatrixXd near_identity_orthogonal(vfh::Rng &r, long n, double angle) {
  MatrixXd K = MatrixXd::NullaryExpr(n, n, [&](Index, Index) { return r.normal(); });
  K = (K - K.transpose()).eval();
  double nk = K.norm();
  if (nk > 0) K *= angle / nk * std::sqrt((double)n);
  MatrixXd I = MatrixXd::Identity(n, n);
  MatrixXd Q = (I - 0.5 * K).partialPivLu().solve(I + 0.5 * K);
  // re-orthonormalise to rounding
  Eigen::HouseholderQR<MatrixXd> qr(Q);
  MatrixXd Qo = qr.householderQ();
  MatrixXd Rm = qr.matrixQR().triangularView<Eigen::Upper>();
  for (long k = 0; k < n; ++k) if (Rm(k, k) < 0) Qo.col(k) *= -1;  // keep it near the identity
  return Qo;
}

// diagonal with distinct entries (gap g), optional shuffle; coupling with max row sum rho*g
static MatrixXd diag_plus_coupling(vfh::Rng &r, long n, double g, double rho, double d0, bool shuffle, int style) {
  VectorXd d(n);
  for (long i = 0; i < n; ++i) d[i] = d0 + g * ((double)i + 0.4 * r.uni());
  if (shuffle)
    for (long k = n; k > 1; --k) std::swap(d[k - 1], d[r.range(0, k - 1)]);
  MatrixXd C = MatrixXd::Zero(n, n);
  for (long i = 0; i < n; ++i)
    for (long j = i + 1; j < n; ++j) {
      double v;
      if (style == 0) v = r.normal();
      else if (style == 1) v = 1.0 / std::pow((double)(j - i), 2);
      else if (style == 2) v = (j - i <= 3) ? r.normal() : 0.0;  // banded (adversarial sets only)
      else v = (j - i == n / 2) ? 1.0 : 0.0;                     // every index couples to one far partner only (adversarial)
      C(i, j) = C(j, i) = v;
    }
  double rs = n > 1 ? C.cwiseAbs().rowwise().sum().maxCoeff() : 0.0;
  if (rs > 0) C *= rho * g / rs;
  MatrixXd A = C;
  A.diagonal() = d;
  return A;
}

static Mat gen_symm_seeded(uint64_t gen_seed, long n, int fam);
static Mat gen_symm(vfh::Rng &r0, long n, int fam) { return gen_symm_seeded(r0.next(), n, fam); }
static Mat gen_symm_seeded(uint64_t gen_seed, long n, int fam) {
  Mat m;
  m.n = n;
  m.gen_seed = gen_seed;
  vfh::Rng r(m.gen_seed);
  J p;
  switch (fam) {
    case 0: {  // diagonally dominant: Gershgorin discs disjoint -> success is required
      double g = r.logu(0.05, 5), rho = r.uni(0.01, 0.24), d0 = r.coin(0.3) ? -r.uni(0, 50) : r.uni(0, 5);
      bool sh = r.coin();
      // dense random coupling only: structural zeros -> adversarial olsen set; smooth 1/(j-i)^2 coupling (nearly
      // linearly dependent correction vectors) -> adversarial Gram-Schmidt set
      int style = 0;
      m.family = "diagdom";
      m.must_succeed = true;
      m.M = diag_plus_coupling(r, n, g, rho, d0, sh, style);
      p.d("gap", g).d("rho", rho).d("d0", d0).b("shuffled", sh).i("coupling_style", style);
      break;
    }
    case 1: {  // dense random coupling, discs overlap
      double g = r.logu(0.05, 5), rho = r.logu(0.25, 3.0), d0 = r.coin(0.3) ? -r.uni(0, 50) : r.uni(0, 5);
      bool sh = r.coin();
      m.family = "dense_coupling";
      m.M = diag_plus_coupling(r, n, g, rho, d0, sh, 0);
      p.d("gap", g).d("rho", rho).d("d0", d0).b("shuffled", sh);
      break;
    }
    case 6: {  // late-entering root: one of the lowest eigenvalues is missing from the initial guess
      // ordinary increasing diagonal + weak dense coupling; two EQUAL large diagonal entries D far down the diagonal
      // with a strong mutual element c, so that D-|c| lies between the lowest eigenvalues; the pair is coupled weakly
      // (not zero) to the rest. The unit-vector guess (smallest diagonal entries) does not contain that root.
      double g = r.logu(0.3, 1.5), sigma = r.logu(LATE_SIGMA_MIN, LATE_SIGMA_MAX), sigpq = r.coin(LATE_PAIR_LOW_SHARE) ? r.logu(LATE_PAIR_MIN, 3 * LATE_PAIR_MIN) : r.logu(3 * LATE_PAIR_MIN, LATE_PAIR_MAX);
      VectorXd d(n);
      for (long i = 0; i < n; ++i) d[i] = 1.0 + g * ((double)i + 0.4 * r.uni());
      m.M = MatrixXd::Zero(n, n);
      for (long i = 0; i < n; ++i)
        for (long j = i + 1; j < n; ++j) m.M(i, j) = m.M(j, i) = r.normal() * sigma * g;
      long pp = r.range(n / 2, n - 1), qq = r.range(n / 2, n - 2);
      if (qq >= pp) ++qq;
      long slot = r.range(0, 3);  // the late root lies between the slot-th and the next lowest diagonal entry
      double t = d[slot] + r.uni(0.3, 0.7) * g;
      double D = d[n - 1] * r.uni(0.5, 2.0);
      double c = (r.coin() ? 1.0 : -1.0) * (D - t);
      m.M.diagonal() = d;
      for (long k = 0; k < n; ++k)
        if (k != pp && k != qq) {
          m.M(pp, k) = m.M(k, pp) = r.normal() * sigpq;
          m.M(qq, k) = m.M(k, qq) = r.normal() * sigpq;
        }
      m.M(pp, pp) = m.M(qq, qq) = D;
      m.M(pp, qq) = m.M(qq, pp) = c;
      m.family = "late_root";
      p.d("gap", g).d("sigma_in_units_of_gap", sigma).d("sigma_pair_absolute", sigpq).i("p", pp).i("q", qq).i("slot", slot).d("D", D).d("c", c).d("target", t);
      break;
    }
    default: {  // prescribed spectrum Q Lambda Q^T
      VectorXd L(n);
      std::string kind;
      if (fam == 2) {  // clustered
        kind = "clustered";
        double w = r.logu(1e-6, 1e-2);
        long cs = r.range(2, 5);
        for (long i = 0; i < n; ++i) L[i] = (double)(i / cs) + w * (double)(i % cs) * r.uni(0.5, 1.0);
        p.d("cluster_width", w).i("cluster_size", cs);
        m.cluster_span = w * (double)cs;
      } else if (fam == 3) {  // exactly degenerate
        kind = "degenerate";
        long mult = r.range(2, 4);
        for (long i = 0; i < n; ++i) L[i] = 0.5 * (double)(i / mult);
        p.i("multiplicity", mult);
      } else if (fam == 4) {  // negative / mixed sign
        kind = "negative";
        double off = r.coin() ? -(double)n - 5 : -(double)n / 2;
        for (long i = 0; i < n; ++i) L[i] = off + (double)i + 0.3 * r.uni();
        p.d("offset", off);
      } else {  // wide range: 12 orders of magnitude
        kind = "wide";
        for (long i = 0; i < n; ++i) L[i] = std::pow(10.0, -6.0 + 12.0 * (double)i / (double)std::max<long>(1, n - 1)) * r.uni(0.5, 1.0);
      }
      bool nearid = r.coin(0.7);
      m.family = kind + (nearid ? "_near_diagonal" : "_random_basis");
      if (nearid) {
        double ang = r.logu(1e-3, 0.2);
        if (r.coin())  // positions shuffled
          for (long k = n; k > 1; --k) std::swap(L[k - 1], L[r.range(0, k - 1)]);
        MatrixXd Q = near_identity_orthogonal(r, n, ang);
        m.M = Q * L.asDiagonal() * Q.transpose();
        m.M = (0.5 * (m.M + m.M.transpose())).eval();
        p.d("rotation_angle", ang);
      } else {
        MatrixXd Q = random_orthogonal(r, n);
        m.M = Q * L.asDiagonal() * Q.transpose();
        m.M = (0.5 * (m.M + m.M.transpose())).eval();
      }
      break;
    }
  }
  p.i("n", n).i("gen_seed_hi", (long long)(m.gen_seed >> 32)).i("gen_seed_lo", (long long)(m.gen_seed & 0xffffffffULL));
  m.params = p.str();
  Eigen::SelfAdjointEigenSolver<MatrixXd> es(m.M, Eigen::EigenvaluesOnly);
  m.ref = es.eigenvalues();
  m.norm = std::max(std::fabs(m.ref[0]), std::fabs(m.ref[n - 1]));
  return m;
}

// BSE form [[A,B],[-B,-A]], A+B and A-B positive definite
static Mat gen_ham(vfh::Rng &r0, long half) {
  Mat m;
  m.ham = true;
  m.n = 2 * half;
  m.gen_seed = r0.next();
  vfh::Rng r(m.gen_seed);
  m.family = "bse_form";
  for (int attempt = 0;; ++attempt) {
    double g = r.logu(0.05, 2), rhoA = r.uni(0.01, 0.24), rhoB = r.uni(0.005, 0.2), d0 = r.uni(0.3, 3.0);
    MatrixXd A = diag_plus_coupling(r, half, g, rhoA, d0, r.coin(), 0);
    MatrixXd B = diag_plus_coupling(r, half, g, rhoB, 0.0, false, 0);
    B.diagonal() = VectorXd::NullaryExpr(half, [&](Index) { return r.normal() * rhoB * g * 0.2; });
    Eigen::LLT<MatrixXd> lp(A + B), lm(A - B);
    if (lp.info() != Eigen::Success || lm.info() != Eigen::Success) continue;
    m.M = MatrixXd(2 * half, 2 * half);
    m.M.topLeftCorner(half, half) = A;
    m.M.topRightCorner(half, half) = B;
    m.M.bottomLeftCorner(half, half) = -B;
    m.M.bottomRightCorner(half, half) = -A;
    // omega^2 are the eigenvalues of L^T (A+B) L with A-B = L L^T
    MatrixXd Lm = lm.matrixL();
    MatrixXd S = Lm.transpose() * (A + B) * Lm;
    Eigen::SelfAdjointEigenSolver<MatrixXd> es(0.5 * (S + S.transpose()), Eigen::EigenvaluesOnly);
    m.ref = es.eigenvalues().cwiseSqrt();
    m.norm = m.ref[half - 1];
    // condition of the eigenvector basis bounds |lambda - theta| <= cond * |residual| (Bauer-Fike)
    Eigen::EigenSolver<MatrixXd> ges(m.M);
    MatrixXd X = ges.eigenvectors().real() + ges.eigenvectors().imag();  // real spectrum: imaginary parts vanish
    for (Index k = 0; k < X.cols(); ++k) X.col(k).normalize();
    Eigen::JacobiSVD<MatrixXd> svd(X);
    m.cond = svd.singularValues()[0] / svd.singularValues()[X.cols() - 1];
    J p;
    p.i("half", half).d("gap", g).d("rhoA", rhoA).d("rhoB", rhoB).d("d0", d0).i("gen_seed_hi", (long long)(m.gen_seed >> 32)).i("gen_seed_lo", (long long)(m.gen_seed & 0xffffffffULL)).i("attempt", attempt).d("eigenvector_condition", m.cond);
    m.params = p.str();
    return m;
  }
}

// ------------------------------------------------------------------ judge
static std::string mat_witness(const Mat &m) {
  J j;
  j.s("family", m.family).raw("parameters", m.params).i("size", m.n);
  if (m.n <= 12) {
    std::vector<double> v(m.M.data(), m.M.data() + m.M.size());
    j.vec("matrix_colmajor", v);
  } else {
    j.s("matrix", "regenerate: c09 family generator with gen_seed (a pure function of family and gen_seed); see replay");
  }
  return j.str();
}

// returns true when the outcome was a judged success
static bool judge(vfh::Reporter &R0, const Mat &m, const Cfg &c, const Outcome &o, const std::string &replay, const std::string &advkey, const std::string &keyprefix = "",
                  const std::string &extra_witness = "") {
  // in a deterministic adversarial family every symptom is reported under the family's own key
  struct Rep {
    vfh::Reporter &R;
    const std::string &adv;
    const std::string &prefix;
    void violation(const std::string &key, const std::string &what, const J &w) { if (adv.empty()) R.violation(prefix + key, what, w); else R.violation(adv, "[" + key + "] " + what, w); }
    void counter(const std::string &k, long long n = 1) { R.counter(k, n); }
    bool want_sample() const { return R.want_sample(); }
    void sample(const J &j) { R.sample(j); }
  } R{R0, advkey, keyprefix};
  auto W = [&]() {
    J w;
    w.raw("matrix", mat_witness(m)).raw("options", cjson(c)).s("replay", replay).i("iterations", o.iters).i("restarts_observed", o.restarts);
    if (!extra_witness.empty()) w.raw("sequence_on_the_same_solver_object", extra_witness);
    return w;
  };
  const std::string kp = c.ham ? "ham/" : "symm/";
  // bounded progress is judged for diagonally dominant matrices with the default iteration limit (or more) and a
  // search-space limit that is not below the solver's default (5*neigen); tighter user limits are counted only
  const bool progress_judged = m.must_succeed && c.iter_max >= 50 && c.guess == 0 && (c.max_space == 0 || c.max_space >= 5 * c.neigen);
  if (progress_judged) R.counter("progress_clause_judged");
  if (o.threw) {
    R.counter("threw:" + o.what.substr(0, 40));
    if (progress_judged)
      R.violation("progress/diagonally-dominant-throws", "solve() threw on a diagonally dominant matrix (default iteration limit, search space not below the default)", W().s("exception", o.what));
    else if (m.must_succeed) R.counter("diagdom_no_success_with_search_space_below_default_or_short_iteration_limit(not_judged)");
    return false;
  }
  long ne = c.neigen;
  double slack = 64 * EPS * m.norm * (double)(o.iters + 2) * std::sqrt((double)m.n);
  if (o.ev.size() != ne || o.vec.cols() != ne || o.vec.rows() != m.n) {
    R.violation(kp + "result-shape", "eigenvalues/eigenvectors do not have neigen entries", W().i("eigenvalues", o.ev.size()).i("vector_rows", o.vec.rows()).i("vector_cols", o.vec.cols()));
    return false;
  }
  if (o.iters < 0 || o.iters >= c.iter_max) {
    R.violation(kp + "iteration-count", "num_iterations() outside [0, iter_max)", W());
  }
  std::vector<double> evs(o.ev.data(), o.ev.data() + ne);
  if (o.info != Eigen::Success) {
    R.counter(std::string("not_converged_") + (o.info == Eigen::NoConvergence ? "NoConvergence" : "other_status"));
    // roots that are kept (non-zero vector) are handed out as converged: their residual must be below the tolerance
    for (long k = 0; k < ne; ++k) {
      if (o.vec.col(k).norm() == 0) continue;
      VectorXd v = o.vec.col(k);
      double res = (m.M * v - o.ev[k] * v).norm();
      R.counter("kept_roots_of_unconverged_solves");
      if (!(res <= 10 * c.tolv + slack))
        R.violation(kp + "nonconverged/kept-root-has-large-residual", "a root kept by a non-converged solve has a residual above the tolerance", W().i("root", k).d("residual", res).d("tolerance", c.tolv).vec("eigenvalues", evs));
    }
    if (progress_judged)
      R.violation("progress/diagonally-dominant-not-converged", "no success within the default iteration limit on a diagonally dominant matrix (search space not below the default)", W().vec("eigenvalues", evs));
    else if (m.must_succeed) R.counter("diagdom_no_success_with_search_space_below_default_or_short_iteration_limit(not_judged)");
    return false;
  }
  // ---- success: everything the statement promises
  bool ok = true;
  VectorXd sorted = o.ev;
  if (c.ham) std::sort(sorted.data(), sorted.data() + ne);  // HAM: the statement speaks of the values only
  for (long k = 0; k < ne; ++k) {
    if (!std::isfinite(o.ev[k])) { R.violation(kp + "eigenvalue-not-finite", "non-finite eigenvalue reported with Success", W().vec("eigenvalues", evs)); return true; }
  }
  if (!c.ham)
    for (long k = 0; k + 1 < ne; ++k)
      if (o.ev[k] > o.ev[k + 1] + slack) {
        R.violation(kp + "not-ascending", "eigenvalues are not in ascending order", W().vec("eigenvalues", evs));
        ok = false;
        break;
      }
  double worst_res = 0, worst_orth = 0;
  for (long k = 0; k < ne; ++k) {
    VectorXd v = o.vec.col(k);
    double nv = v.norm();
    if (std::fabs(nv - 1) > 1e-10) {
      R.violation(kp + "not-normalised", "an eigenvector is not normalised", W().i("root", k).d("norm", nv));
      ok = false;
      break;
    }
    double res = (m.M * v - o.ev[k] * v).norm();
    worst_res = std::max(worst_res, res);
    if (!(res <= 10 * c.tolv + slack)) {
      R.violation(kp + "residual-above-tolerance", "|A v - lambda v| recomputed from the operator exceeds 10 x the selected tolerance although Success is reported", W().i("root", k).d("residual", res).d("tolerance", c.tolv).vec("eigenvalues", evs));
      ok = false;
      break;
    }
  }
  if (!c.ham && ok) {
    MatrixXd G = o.vec.transpose() * o.vec;
    G.diagonal().setZero();
    worst_orth = G.cwiseAbs().maxCoeff();
    if (ne > 1 && worst_orth > 1e-8) {
      R.violation(kp + "not-orthogonal", "eigenvectors are not mutually orthogonal", W().d("max_abs_overlap", worst_orth));
      ok = false;
    }
  }
  if (ok) {
    double etol = std::max(10 * c.tolv, 1e-8) * m.cond + slack;
    for (long k = 0; k < ne; ++k) {
      if (std::fabs(sorted[k] - m.ref[k]) > etol && std::fabs(sorted[k] - m.ref[k]) <= etol + m.cluster_span && advkey.empty()) {
        R.counter("clustered:other_member_of_the_cluster_returned(judged_on_the_deterministic_set_only)");
        continue;
      }
      if (std::fabs(sorted[k] - m.ref[k]) > etol) {
        std::vector<double> refv(m.ref.data(), m.ref.data() + std::min<long>(m.ref.size(), ne + 4));
        std::string key = kp + "not-the-lowest-eigenvalues";
        R.violation(key, c.ham ? "Success is reported but the values are not the lowest positive eigenvalues" : "Success is reported but the values are not the lowest eigenvalues of the matrix",
                    W().i("root", k).d("got", sorted[k]).d("dense_reference", m.ref[k]).d("tolerance", etol).vec("eigenvalues", evs).vec("lowest_dense_eigenvalues", refv));
        ok = false;
        break;
      }
    }
  }
  if (R.want_sample() && ok && m.n >= 20 && o.iters >= 2) {
    R.sample(W().vec("eigenvalues", evs).vec("dense_reference", std::vector<double>(m.ref.data(), m.ref.data() + ne)).d("worst_residual", worst_res).d("worst_overlap", worst_orth));
  }
  return true;
}

static double r_round(double x) { return std::floor(x + 0.5); }
static const char *CORR[] = {"DPR", "OLSEN"};
static const char *UPD[] = {"min", "safe", "max"};
static const char *TOL[] = {"loose", "normal", "strict", "lapack"};

static Cfg gen_cfg(vfh::Rng &r, long combo, long n, bool ham) {
  Cfg c;
  c.corr = CORR[combo % 2];
  c.upd = UPD[(combo / 2) % 3];
  c.tol = TOL[(combo / 6) % 4];
  c.tolv = tol_value(c.tol);
  c.ham = ham;
  // The basis grows to max(min(max_space,n), 2*neigen + size_update) + size_update columns before a restart
  // truncates it. Settings in which that exceeds the dimension n (neigen > n/6 with "max", > n/5 with "safe",
  // or a default search space > n - size_update) belong to the deterministic family
  // davidson/search-space-exceeds-dimension; the randomised part keeps the basis within the dimension.
  long div = c.upd == "min" ? 4 : (c.upd == "safe" ? 5 : 6);
  if (n < div) { c.upd = "min"; div = 4; }
  long maxne = std::max<long>(1, n / div);
  int nc = (int)r.range(0, 5);
  if (nc == 0) c.neigen = 1;
  else if (nc == 1) c.neigen = maxne;
  else c.neigen = (long)std::floor(r.logu(1.0, (double)maxne + 0.999));
  c.neigen = std::max<long>(1, std::min(c.neigen, maxne));
  long upd = c.upd == "min" ? c.neigen : c.upd == "max" ? 2 * c.neigen : (c.neigen < 20 ? (long)(1.5 * (double)c.neigen) : c.neigen + 10);
  long hi = std::max(c.neigen, n - upd);  // largest admissible search-space limit
  int sc = (int)r.range(0, 9);
  if (sc <= 3) c.max_space = 0;                                                           // default 5*neigen
  else if (sc <= 6) c.max_space = r.range(c.neigen, std::min(hi, 2 * c.neigen + upd + 2));  // tight: a restart (almost) every iteration
  else if (sc <= 8) c.max_space = r.range(std::min(hi, 3 * c.neigen), std::min(hi, 8 * c.neigen));
  else c.max_space = hi;                                                                  // as large as the dimension allows
  if ((c.max_space == 0 ? 5 * c.neigen : c.max_space) > hi) c.max_space = r.range(c.neigen, hi);
  int ic = (int)r.range(0, 9);
  if (ic <= 6) c.iter_max = 50;
  else if (ic <= 8) c.iter_max = r.range(1, 10);
  else c.iter_max = 200;
  c.matfree = r.coin(0.35);
  return c;
}

// options of the late_root family: neigen 4..8, emphasis on loose/normal, both corrections, all update sizes,
// default or tight search-space limit
static Cfg gen_cfg_late(vfh::Rng &r, long n) {
  Cfg c;
  c.corr = CORR[r.range(0, 1)];
  c.upd = UPD[r.range(0, 2)];
  double tc = r.uni();
  c.tol = tc < LATE_LOOSE_SHARE ? "loose" : tc < LATE_LOOSE_SHARE + 0.6 * (1 - LATE_LOOSE_SHARE) ? "normal" : tc < LATE_LOOSE_SHARE + 0.8 * (1 - LATE_LOOSE_SHARE) ? "strict" : "lapack";
  c.tolv = tol_value(c.tol);
  c.neigen = r.range(4, 8);
  long upd = c.upd == "min" ? c.neigen : c.upd == "max" ? 2 * c.neigen : (long)(1.5 * (double)c.neigen);
  if (!r.coin(LATE_TIGHT_SHARE)) c.max_space = 0;
  else c.max_space = r.range(c.neigen, 2 * c.neigen + upd + 2);
  c.iter_max = r.coin(0.85) ? 50 : 200;
  c.matfree = r.coin(0.3);
  (void)n;
  return c;
}

static void account(vfh::Reporter &R, const Mat &m, const Cfg &c, const Outcome &o, bool judged_success, uint64_t h) {
  R.counter("combo:" + c.corr + "/" + c.upd + "/" + c.tol);
  R.counter("restarts_observed", o.restarts);
  if (o.restarts > 0) R.counter("solves_with_restart");
  if (o.restarts >= 5) R.counter("solves_with_5plus_restarts");
  if (judged_success) R.counter("success:" + m.family);
  else if (!o.threw) R.counter("noconv:" + m.family);
  if (c.matfree) R.counter("matrix_free_solves");
  // non-trivial: the solver had to extend its space at least once on a matrix of size >= 4
  if (m.n >= 4 && (o.iters >= 1 || o.restarts > 0)) R.nontrivial(h);
}

static std::string replay_str(bool large, long seed, long shard, long mi) {
  return "c09 --mode random --sizes " + std::string(large ? "large" : "small") + " --seed " + std::to_string(seed) + " --shard " + std::to_string(shard) + " --only " + std::to_string(mi) + (large ? "  (fast flavour)" : "  (asan flavour)");
}

static void run_random(vfh::Reporter &R, long seed, long shard, long nsolves, bool large, long only, bool late = false) {
  long done = 0;
  for (long mi = 0; done < nsolves; ++mi) {
    // one matrix (one dense reference), several option settings; everything is a function of (seed, shard, mi)
    vfh::Rng rm((uint64_t)seed * 1000003ULL + (uint64_t)shard * 7919ULL + (uint64_t)mi * 104729ULL + (late ? 9 : large ? 5 : 3));
    if (only >= 0 && mi != only) {
      if (mi > only) break;
      continue;
    }
    long n;
    if (late) n = rm.range(100, 200);
    else if (large) n = (long)r_round(rm.logu(201, 1000));
    else {
      int sc = (int)rm.range(0, 9);
      n = sc <= 1 ? rm.range(2, 12) : (sc <= 6 ? rm.range(13, 60) : rm.range(61, 200));
    }
    bool ham = !late && n >= 4 && rm.coin(large ? 0.1 : 0.2);
    Mat m;
    if (late) m = gen_symm(rm, n, 6);
    else if (ham) m = gen_ham(rm, n / 2);
    else {
      int fc = (int)rm.range(0, 19);
      int fam = fc < 6 ? 0 : fc < 9 ? 1 : fc < 12 ? 2 : fc < 15 ? 3 : fc < 18 ? 4 : 5;
      m = gen_symm(rm, n, fam);
    }
    long nsol = late ? LATE_SOLVES_PER_MATRIX : large ? 3 : 4;
    for (long s = 0; s < nsol && done < nsolves; ++s, ++done) {
      long combo = (shard * 5 + mi * nsol + s) % 24;
      Cfg c = late ? gen_cfg_late(rm, m.n) : gen_cfg(rm, combo, m.n, ham);
      const std::string rps = late ? "c09 --mode random --sizes late --seed " + std::to_string(seed) + " --shard " + std::to_string(shard) + " --only " + std::to_string(mi) + "  (asan flavour)" : replay_str(large, seed, shard, mi);
      J cj;
      cj.raw("matrix", mat_witness(m)).raw("options", cjson(c)).s("replay", rps);
      vfh::set_case(cj.str());
      R.eval(m.family);
      Outcome o = solve(m.M, c);
      bool js = judge(R, m, c, o, rps, "");
      uint64_t h = vfh::hmix(m.gen_seed, (uint64_t)combo * 1315423911ULL + (uint64_t)c.neigen * 31 + (uint64_t)c.max_space * 7 + (uint64_t)c.iter_max);
      account(R, m, c, o, js, h);
      if (m.n < 4) R.counter("tiny_matrices_below_size_4");
    }
  }
}

// ------------------------------------------------------------------ one solver object, several solves
// Sequences of 2..4 solves on ONE DavidsonSolver object (as a long-lived caller does), options changed through the
// setters between the solves. After every solve: the full oracle, and the result must be that of THIS solve: a fresh
// solver with identical settings must give the identical status, iteration count and eigenvalues.
static void run_reuse(vfh::Reporter &R, long seed, long shard, long nseq, long only) {
  for (long si = 0; si < nseq; ++si) {
    if (only >= 0 && si != only) continue;
    vfh::Rng r((uint64_t)seed * 1000003ULL + (uint64_t)shard * 7919ULL + (uint64_t)si * 104729ULL + 13);
    const std::string rps = "c09 --mode reuse --seed " + std::to_string(seed) + " --shard " + std::to_string(shard) + " --only " + std::to_string(si) + "  (asan flavour)";
    long len = r.range(2, 4);
    Logger log;
    log.setReportLevel(votca::Log::error);
    log.setMultithreading(false);
    DavidsonSolver DS(log);
    std::vector<Mat> mats;
    std::string seqj = "[";
    long hard = -1;  // index in mats of the densely coupled matrix of this sequence
    bool had_success = false;
    for (long k = 0; k < len; ++k) {
      // kind: 0 easy diagonally dominant, 1 hard matrix with an iteration limit too small to converge,
      //       2 the same hard matrix with a generous limit, 3 another size / neigen, 4 BSE form (HAM mode)
      int kind;
      if (k == 0) kind = r.coin(0.75) ? 0 : 1;
      else if (k == 1 && had_success) kind = r.coin(0.7) ? 1 : (int)r.range(0, 4);
      else kind = (int)r.range(0, 4);
      if (kind == 2 && hard < 0) kind = 1;
      // kind 5: ANOTHER matrix of exactly the dimension of the previous solve (anything the object caches per
      // dimension - the operator diagonal, the guess, the search space - must be rebuilt for the new operator)
      long prev_n = -1;
      if (k > 0 && !mats.empty() && !mats.back().ham) prev_n = mats.back().n;
      if (prev_n >= 8 && r.coin(0.45)) kind = 5;
      size_t mi;
      if (kind == 5) { mats.push_back(gen_symm(r, prev_n, 0)); mi = mats.size() - 1; }
      else if (kind == 0 || kind == 3) { mats.push_back(gen_symm(r, kind == 0 ? r.range(8, 120) : r.range(4, 160), 0)); mi = mats.size() - 1; }
      else if (kind == 1) { if (hard < 0 || r.coin(0.3)) { mats.push_back(gen_symm(r, r.range(40, 140), r.coin() ? 1 : 2)); hard = (long)mats.size() - 1; } mi = (size_t)hard; }
      else if (kind == 2) mi = (size_t)hard;
      else { mats.push_back(gen_ham(r, r.range(4, 40))); mi = mats.size() - 1; }
      const Mat &m = mats[mi];
      Cfg c = gen_cfg(r, r.range(0, 23), m.n, m.ham);
      c.matfree = r.coin(0.3);
      if (kind == 1) { c.iter_max = r.range(1, 2); c.tol = r.coin() ? "lapack" : "strict"; c.tolv = tol_value(c.tol); c.neigen = std::min<long>(std::max<long>(c.neigen, 3), std::max<long>(1, m.n / 6)); }
      else if (kind == 2) c.iter_max = 200;
      else if (kind != 4 && c.iter_max < 50) c.iter_max = 50;
      // keep the basis within the dimension after neigen was raised
      {
        long upd = c.upd == "min" ? c.neigen : c.upd == "max" ? 2 * c.neigen : (c.neigen < 20 ? (long)(1.5 * (double)c.neigen) : c.neigen + 10);
        long hi = std::max(c.neigen, m.n - upd);
        if ((c.max_space == 0 ? 5 * c.neigen : c.max_space) > hi || c.max_space < 0) c.max_space = r.range(c.neigen, hi);
      }
      static const char *KN[] = {"easy_diagonally_dominant", "iteration_limit_too_small", "same_matrix_generous_limit", "other_size", "bse_form", "other_matrix_of_the_same_size"};
      seqj += std::string(k ? "," : "") + J().i("step", k).s("kind", KN[kind]).raw("matrix", mat_witness(m)).raw("options", cjson(c)).str();
      std::string seq_now = seqj + "]";
      vfh::set_case(J().s("replay", rps).raw("sequence", seq_now).str());
      // reference: a fresh solver with identical settings
      Outcome f = solve(m.M, c);
      // the reused object
      configure(DS, c, true);
      Outcome o;
      if (c.matfree) { DenseOp op(m.M); o = run_on(DS, log, op, c); }
      else o = run_on(DS, log, m.M, c);
      R.eval("solver_reuse");
      R.counter(std::string("reuse_step_kind:") + KN[kind]);
      if (kind == 1) R.counter(f.info != Eigen::Success && !f.threw ? "reuse_forced_nonconvergence_confirmed_by_fresh_solver" : "reuse_forced_nonconvergence_not_reached(step judged as an ordinary solve)");
      if (k > 0 && had_success && kind == 1 && f.info != Eigen::Success && !f.threw) R.counter("reuse_nonconvergence_after_an_earlier_success");
      auto W = [&]() {
        J w;
        w.s("replay", rps).raw("sequence_on_the_same_solver_object", seq_now).i("step", k)
            .s("status_reused", o.threw ? "exception: " + o.what : (o.info == Eigen::Success ? "Success" : "NoConvergence/other")).s("status_fresh", f.threw ? "exception: " + f.what : (f.info == Eigen::Success ? "Success" : "NoConvergence/other"))
            .i("iterations_reused", o.iters).i("iterations_fresh", f.iters);
        if (o.ev.size()) w.vec("eigenvalues_reused", std::vector<double>(o.ev.data(), o.ev.data() + o.ev.size()));
        if (f.ev.size()) w.vec("eigenvalues_fresh", std::vector<double>(f.ev.data(), f.ev.data() + f.ev.size()));
        return w;
      };
      // (1) the status and the result belong to THIS solve
      if (o.threw != f.threw || (!o.threw && o.info != f.info)) {
        R.violation("reuse/status-not-updated", "status after a solve on a re-used solver object differs from that of a fresh solver with identical settings", W());
      } else if (!o.threw) {
        bool same_shape = o.ev.size() == f.ev.size() && o.vec.rows() == f.vec.rows() && o.vec.cols() == f.vec.cols();
        double dev = same_shape && o.ev.size() ? (o.ev - f.ev).cwiseAbs().maxCoeff() : 0;
        if (!same_shape || !(dev <= 1e-10 * (1 + m.norm)))
          R.violation("reuse/result-of-previous-solve-returned", "eigenvalues()/eigenvectors() after a solve on a re-used object are not those a fresh solver returns for this solve", W().d("max_eigenvalue_difference", dev));
        else if (o.iters != f.iters)
          R.violation("reuse/options-or-state-carried-over", "a re-used solver needs another number of iterations than a fresh one with identical settings (an option did not take effect or state leaked)", W());
      }
      // (2) the full oracle on what the re-used object returned
      bool js = judge(R, m, c, o, rps, "", "reuse/", seq_now);
      if (js) had_success = true;
      uint64_t h = vfh::hmix(m.gen_seed, (uint64_t)k * 977 + (uint64_t)c.neigen * 31 + (uint64_t)c.max_space * 7 + (uint64_t)c.iter_max + (uint64_t)kind * 131071);
      if (k > 0 && m.n >= 4) R.nontrivial(h);
      R.counter(js ? "reuse_success" : (o.threw ? "reuse_exception" : "reuse_not_converged"));
    }
    R.counter("reuse_sequences");
  }
}

// ------------------------------------------------------------------ OpenMP environments
// A modest, fixed-per-seed set of cases (the same for every environment) solved under different OpenMP
// environments: the process environment (OMP_NUM_THREADS / OMP_THREAD_LIMIT / OMP_DYNAMIC) is set by c09.py,
// "region" runs solve() from inside "#pragma omp parallel num_threads(3)", each thread with its own matrix copy,
// operator, logger and solver; "nested" additionally allows two active levels. Same oracle, keys omp-env/<env>/...
struct OmpCase {
  Mat m;
  Cfg c;
};
static std::vector<OmpCase> omp_cases(long seed, long ncases, bool dense) {
  std::vector<OmpCase> v;
  vfh::Rng r((uint64_t)seed * 1000003ULL + 4711);
  for (long i = 0; i < ncases; ++i) {
    OmpCase oc;
    int kind = (int)(i % 3);  // 0 diagonally dominant, 1 clustered, 2 BSE form (HAM)
    long n = (i % 6 == 5) ? r.range(200, 300) : r.range(40, 160);
    if (kind == 0) oc.m = gen_symm(r, n, 0);
    else if (kind == 1) oc.m = gen_symm(r, n, 2);
    else oc.m = gen_ham(r, n / 2);
    Cfg c;
    c.ham = oc.m.ham;
    c.corr = CORR[r.range(0, 1)];
    c.upd = UPD[r.range(0, 2)];
    c.tol = TOL[r.range(0, 2)];
    c.tolv = tol_value(c.tol);
    long div = c.upd == "min" ? 4 : (c.upd == "safe" ? 5 : 6);
    c.neigen = std::max<long>(1, std::min<long>(r.range(1, 12), oc.m.n / div));
    long upd = c.upd == "min" ? c.neigen : c.upd == "max" ? 2 * c.neigen : (long)(1.5 * (double)c.neigen);
    long hi = std::max(c.neigen, oc.m.n - upd);
    c.max_space = 5 * c.neigen <= hi ? 0 : hi;  // default search space whenever the basis then stays within the dimension
    c.iter_max = 50;
    c.matfree = !dense;
    oc.c = c;
    v.push_back(oc);
  }
  return v;
}

static void run_ompenv(vfh::Reporter &R, const std::string &env, long seed, long ncases, bool region, bool nested, bool dense) {
  const std::string kp = "omp-env/" + env + "/";
  // ---- what the OpenMP run-time actually delivers here
  int delivered = 0, region_team = 0, nested_delivered = 0;
#pragma omp parallel
  {
#pragma omp single
    delivered = omp_get_num_threads();
  }
  R.counter(kp + "probe_omp_get_max_threads", omp_get_max_threads());
  R.counter(kp + "probe_threads_delivered_in_a_parallel_region", delivered);
  R.counter(kp + "probe_omp_get_thread_limit", omp_get_thread_limit() > 1000000 ? -1 : omp_get_thread_limit());
  R.counter(kp + "probe_omp_get_dynamic", omp_get_dynamic());
  if (nested) omp_set_max_active_levels(2);
  R.counter(kp + "probe_max_active_levels", omp_get_max_active_levels());
  std::vector<OmpCase> cases = omp_cases(seed, ncases, dense);
  std::vector<Outcome> out(cases.size());
  if (region) {
#pragma omp parallel num_threads(3)
    {
      int team = omp_get_num_threads(), t = omp_get_thread_num();
      int inner = 0;
#pragma omp parallel
      {
#pragma omp single
        inner = omp_get_num_threads();
      }
      if (t == 0) { region_team = team; nested_delivered = inner; }
      for (size_t i = (size_t)t; i < cases.size(); i += (size_t)team) {
        const MatrixXd Mlocal = cases[i].m.M;  // this thread's own matrix, operator, logger and solver
        out[i] = solve(Mlocal, cases[i].c);
      }
    }
    R.counter(kp + "probe_team_size_of_the_calling_region", region_team);
    R.counter(kp + "probe_threads_delivered_to_a_nested_region", nested_delivered);
  } else {
    for (size_t i = 0; i < cases.size(); ++i) out[i] = solve(cases[i].m.M, cases[i].c);
  }
  for (size_t i = 0; i < cases.size(); ++i) {
    const Mat &m = cases[i].m;
    const Cfg &c = cases[i].c;
    std::string rps = "c09 --mode ompenv --env " + env + " --seed " + std::to_string(seed) + " --n " + std::to_string(ncases) + (region ? " --region 1" : "") + (nested ? " --nested 1" : "") + (dense ? " --dense 1" : "") + "  (case " + std::to_string(i) + "; process environment as listed in the evidence)";
    vfh::set_case(J().s("replay", rps).raw("options", cjson(c)).str());
    R.eval("omp_env_" + env);
    bool js = judge(R, m, c, out[i], rps, "", kp);
    R.counter(kp + (js ? "success" : out[i].threw ? "exception" : "not_converged"));
    R.counter(kp + "cases:" + m.family);
    if (m.n >= 4) R.nontrivial(vfh::hstr(vfh::hmix(m.gen_seed, (uint64_t)i * 31 + (uint64_t)c.neigen), env));
  }
}

// ------------------------------------------------------------------ adversarial, deterministic (§6 item 18)
// The lowest root lives in a block that is EXACTLY decoupled from the block the
// unit-vector guesses (smallest diagonal entries) start in.
static Mat decoupled(long n1, long n2, bool interleave) {
  Mat m;
  m.family = "adversarial_decoupled_block";
  m.n = n1 + n2;
  MatrixXd A = MatrixXd::Zero(m.n, m.n);
  for (long i = 0; i < n1; ++i)
    for (long j = 0; j < n1; ++j) A(i, j) = i == j ? (double)(i + 1) : 0.01 / std::pow((double)(j - i), 2);
  double c = 70.0 / (double)(n2 - 1);  // block 2: diagonal ~50, lowest eigenvalue ~ -20
  for (long i = 0; i < n2; ++i)
    for (long j = 0; j < n2; ++j) A(n1 + i, n1 + j) = i == j ? 50.0 + 0.1 * (double)i : -c;
  if (interleave) {  // symmetric permutation: block-2 indices spread over the matrix
    Eigen::PermutationMatrix<Eigen::Dynamic> P(m.n);
    P.setIdentity();
    for (long k = 0; k < n2; ++k) std::swap(P.indices()[n1 + k], P.indices()[(k * 3 + 1) % n1]);
    A = (P * A * P.transpose()).eval();
  }
  m.M = A;
  J p;
  p.i("n1", n1).i("n2", n2).b("interleaved", interleave).s("construction", "block1: diag 1..n1, off-diagonal 0.01/(j-i)^2; block2: diag 50+0.1 i, off-diagonal -70/(n2-1); no coupling between the blocks; optional symmetric permutation swapping block-2 index n1+k with (3k+1) mod n1");
  m.params = p.str();
  Eigen::SelfAdjointEigenSolver<MatrixXd> es(m.M, Eigen::EigenvaluesOnly);
  m.ref = es.eigenvalues();
  m.norm = std::max(std::fabs(m.ref[0]), std::fabs(m.ref[m.n - 1]));
  return m;
}

// the matrix of upstream's own test_davidson: init_matrix(N, 0.01)
static Mat upstream_matrix(long N) {
  Mat m;
  m.n = N;
  m.gen_seed = 0;
  m.must_succeed = true;
  m.M = MatrixXd::Zero(N, N);
  for (long i = 0; i < N; ++i)
    for (long j = 0; j < N; ++j) m.M(i, j) = i == j ? std::sqrt((double)(1 + i)) : 0.01 / std::pow((double)(j - i), 2);
  m.params = J().i("n", N).s("construction", "upstream test_davidson init_matrix(N, 0.01): A(i,i)=sqrt(1+i), A(i,j)=0.01/(j-i)^2").str();
  Eigen::SelfAdjointEigenSolver<MatrixXd> es(m.M, Eigen::EigenvaluesOnly);
  m.ref = es.eigenvalues();
  m.norm = std::max(std::fabs(m.ref[0]), std::fabs(m.ref[N - 1]));
  return m;
}

static void adv_solve(vfh::Reporter &R, const Mat &m, const Cfg &c, const std::string &fam, const std::string &key, long idx) {
  std::string rp = "c09 --mode adversarial (" + fam + " instance " + std::to_string(idx) + ")";
  vfh::set_case(J().raw("matrix", mat_witness(m)).raw("options", cjson(c)).str());
  R.eval(fam);
  Outcome o = solve(m.M, c);
  long before = R.violations;
  bool js = judge(R, m, c, o, rp, key);
  std::string res = (js && R.violations == before) ? "correct_success" : js ? "success_reported_with_wrong_result" : o.threw ? "exception" : (R.violations == before ? "no_success_reported" : "no_success_reported(judged)");
  R.counter(fam + ":" + res);
  R.nontrivial(vfh::hstr(vfh::hmix(1000 + idx, m.n), fam));
}

static void run_adversarial(vfh::Reporter &R) {
  // ---- A: lowest root in an exactly decoupled block (inherent to the method, §6 item 18)
  {
    const long N1[] = {8, 20, 50}, N2[] = {2, 3, 6};
    long idx = 0;
    for (long n1 : N1)
      for (long n2 : N2)
        for (int il = 0; il < 2; ++il) {
          Mat m = decoupled(n1, n2, il == 1);
          for (long ne = 1; ne <= 2; ++ne)
            for (int cc = 0; cc < 4; ++cc) {
              Cfg c;
              c.corr = CORR[cc % 2];
              c.upd = cc < 2 ? "safe" : "max";
              c.tol = (idx % 2) ? "strict" : "normal";
              c.tolv = tol_value(c.tol);
              c.neigen = ne;
              c.matfree = (idx % 3) == 0;
              adv_solve(R, m, c, "adversarial_decoupled_block", "davidson/decoupled-block-lowest-root-missed", ++idx);
            }
        }
  }
  // ---- B: neigen close to size/4 with the default search space: the space (2*neigen + k*size_update) outgrows the
  //         matrix dimension before a restart truncates it
  {
    // the matrix of upstream's own test_davidson (init_matrix(N, 0.01)), neigen = N/4, default search space
    const long NS[] = {8, 20, 28, 36, 40, 60, 100};
    long idx = 0;
    for (long N : NS) {
      Mat m = upstream_matrix(N);
      m.family = "adversarial_space_exceeds_dimension";
      for (int cc = 0; cc < 8; ++cc) {
        Cfg c;
        c.corr = CORR[cc % 2];
        c.upd = (cc / 2) % 2 ? "max" : "safe";
        c.tol = cc < 4 ? "normal" : "lapack";
        c.tolv = tol_value(c.tol);
        c.neigen = N / 4;
        c.matfree = (idx % 3) == 0;
        adv_solve(R, m, c, "adversarial_space_exceeds_dimension", "davidson/search-space-exceeds-dimension", ++idx);
      }
    }
  }
  // ---- D: smooth coupling -> the correction vectors of neighbouring roots are nearly linearly dependent and the
  //         twice-repeated classical Gram-Schmidt leaves a basis that is far from orthonormal (space within dimension)
  {
    long idx = 0;
    const long NE[][2] = {{100, 10}, {100, 12}, {200, 20}};
    for (auto &ne : NE) {
      Mat m = upstream_matrix(ne[0]);
      m.family = "adversarial_gram_schmidt";
      const char *combos[][3] = {{"DPR", "safe", "strict"}, {"DPR", "safe", "lapack"}, {"DPR", "max", "normal"}, {"OLSEN", "safe", "strict"}, {"OLSEN", "max", "lapack"}, {"DPR", "min", "lapack"}, {"DPR", "safe", "normal"}};
      for (auto &cb : combos) {
        Cfg c;
        c.corr = cb[0]; c.upd = cb[1]; c.tol = cb[2];
        c.tolv = tol_value(c.tol);
        c.neigen = ne[1];
        c.matfree = (idx % 3) == 0;
        adv_solve(R, m, c, "adversarial_gram_schmidt", "davidson/gram-schmidt-loses-orthogonality", ++idx);
      }
    }
  }
  // ---- E: clustered spectrum: the solver converges (residual below the tolerance) to a neighbour of the lowest
  //         root inside a cluster whose spacing is ~20 x the tolerance (instance found by the soak, seed 3)
  {
    long idx = 0;
    Mat m = gen_symm_seeded(((uint64_t)3838796398ULL << 32) | 475311472ULL, 98, 2);
    m.family = "adversarial_cluster_neighbour";
    m.cluster_span = 0;
    const char *combos[][3] = {{"DPR", "min", "normal"}, {"OLSEN", "min", "normal"}, {"DPR", "safe", "normal"}, {"DPR", "min", "strict"}};
    for (auto &cb : combos) {
      Cfg c;
      c.corr = cb[0]; c.upd = cb[1]; c.tol = cb[2];
      c.tolv = tol_value(c.tol);
      c.neigen = 1;
      c.max_space = 97;
      adv_solve(R, m, c, "adversarial_cluster_neighbour", "davidson/cluster-neighbour-root-returned", ++idx);
    }
  }
  // ---- C: a Ritz value that coincides exactly with a diagonal element (guess indices not coupled among themselves)
  {
    const long NE[][2] = {{20, 1}, {40, 2}, {40, 4}, {100, 6}, {200, 10}};
    long idx = 0;
    for (auto &ne : NE) {
      vfh::Rng r(777 + ne[0]);
      Mat m;
      m.n = ne[0];
      m.gen_seed = 0;
      m.family = "adversarial_ritz_value_equals_diagonal";
      m.must_succeed = true;
      m.M = diag_plus_coupling(r, m.n, 1.0, 0.2, 1.0, false, 3);
      m.params = J().i("n", m.n).s("construction", "diag 1+(i+0.4u_i) (u_i from vfh::Rng(777+n)), A(i,i+n/2)=A(i+n/2,i)=0.2, all other entries zero").str();
      Eigen::SelfAdjointEigenSolver<MatrixXd> es(m.M, Eigen::EigenvaluesOnly);
      m.ref = es.eigenvalues();
      m.norm = std::max(std::fabs(m.ref[0]), std::fabs(m.ref[m.n - 1]));
      for (int cc = 0; cc < 6; ++cc) {
        Cfg c;
        c.corr = CORR[cc % 2];
        c.upd = UPD[cc / 2];
        c.tol = "normal";
        c.tolv = tol_value(c.tol);
        c.neigen = ne[1];
        c.matfree = (idx % 2) == 0;
        std::string fam = std::string("adversarial_ritz_value_equals_diagonal_") + c.corr;
        adv_solve(R, m, c, fam, c.corr == "OLSEN" ? "davidson/olsen-ritz-value-equals-diagonal-element" : "davidson/dpr-ritz-value-equals-diagonal-element", ++idx);
      }
    }
  }
}

int main(int argc, char **argv) {
  vfh::Args A(argc, argv);
  vfh::Reporter R;
  R.max_samples = 3;
  std::string mode = A.str("mode", "random");
  // generator parameters of the late_root family (defaults = what the check uses; see the rule in c09.py)
  LATE_SIGMA_MIN = A.real("late-sigma-lo", LATE_SIGMA_MIN); LATE_SIGMA_MAX = A.real("late-sigma-hi", LATE_SIGMA_MAX);
  LATE_PAIR_MIN = A.real("late-pair-lo", LATE_PAIR_MIN); LATE_PAIR_MAX = A.real("late-pair-hi", LATE_PAIR_MAX);
  LATE_PAIR_LOW_SHARE = A.real("late-pair-low-share", LATE_PAIR_LOW_SHARE);
  LATE_TIGHT_SHARE = A.real("late-tight", LATE_TIGHT_SHARE); LATE_LOOSE_SHARE = A.real("late-loose", LATE_LOOSE_SHARE);
  LATE_SOLVES_PER_MATRIX = A.num("late-solves-per-matrix", LATE_SOLVES_PER_MATRIX);
  if (mode == "adversarial") run_adversarial(R);
  else if (mode == "ompenv") run_ompenv(R, A.str("env", "unnamed"), A.num("seed", 1), A.num("n", 18), A.num("region", 0) != 0, A.num("nested", 0) != 0, A.num("dense", 0) != 0);
  else if (mode == "reuse") run_reuse(R, A.num("seed", 1), A.num("shard", 0), A.num("n", 20), A.has("only") ? A.num("only", 0) : -1);
  else run_random(R, A.num("seed", 1), A.num("shard", 0), A.num("n", 20), A.str("sizes", "small") == "large", A.has("only") ? A.num("only", 0) : -1, A.str("sizes", "small") == "late");
  R.summary();
  return 0;
}
