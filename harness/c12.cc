// C12 monitor: tables and splines interpolate / fit / resample faithfully
// (DESIGN.md §5 C12). Library part; the executable part (csg_resample) is
// driven from lib/checks/c12.py.
// Real code: Lin/Cubic/AkimaSpline::Interpolate/Fit/Calculate/
// CalculateDerivative, Spline::GenerateGrid, Table::Smooth/Save/Load/
// GenerateGridSpacing.
// Oracle: relational only (no stored numbers): knot values, continuity of value
// and slope across knots (+-eps evaluations), straight-line reproduction,
// linearity in the ordinates, natural end curvature (second differences),
// periodic end conditions, Fit reproduces functions of the spline space and its
// residual is orthogonal to an independently built basis (long double
// reference splines / hat functions).
//
// parts: --part interp --type linear|cubic|akima | --part fit --type linear|cubic | --part table
//        --part reuse --type linear|cubic|akima|table   (object reuse, keys *-reuse/*)
#include "vfh.h"
#include <csignal>
#include <fstream>
#include <votca/tools/akimaspline.h>
#include <votca/tools/cubicspline.h>
#include <votca/tools/linspline.h>
#include <votca/tools/table.h>

using namespace votca::tools;
using votca::Index;
using vfh::J;
typedef long double LD;
static const double EPS = 2.220446049250313e-16;

static std::map<std::string, double> g_worst;
static bool g_stats = false;
static inline void stat(const std::string &k, double diff, double tol) {
  if (!g_stats) return;
  double r = tol > 0 ? diff / tol : (diff > 0 ? INFINITY : 0);
  if (!(r <= 0.05)) std::cerr << "STATCASE " << k << " ratio " << r << " diff " << diff << " tol " << tol << " case " << vfh::current_case().substr(0, 500) << "\n";
  auto it = g_worst.find(k);
  if (it == g_worst.end() || !(it->second >= r)) g_worst[k] = r;
}
static std::vector<double> ev(const Eigen::VectorXd &v) { return std::vector<double>(v.data(), v.data() + v.size()); }

// ---------------------------------------------------------------- data generator
struct Data {
  Eigen::VectorXd x, y;
  int ykind = 0;
};
static Eigen::VectorXd gen_grid(vfh::Rng &r, long n, bool &uniform) {
  Eigen::VectorXd x(n);
  double h0 = r.logu(1e-2, 10), x0 = r.coin(0.3) ? 0.0 : r.uni(-50, 50) * h0;
  uniform = r.coin(0.4);
  double xx = x0, h = h0;
  for (long i = 0; i < n; ++i) {
    x[i] = xx;
    if (!uniform) { h = h * r.logu(0.25, 4); h = std::min(std::max(h, h0 / 20), h0 * 20); }  // adjacent ratio <= 4
    xx += h;
  }
  return x;
}
static Eigen::VectorXd gen_y(vfh::Rng &r, const Eigen::VectorXd &x, int ykind) {
  const long n = x.size();
  Eigen::VectorXd y(n);
  double A = r.logu(1e-3, 1e3), off = r.coin(0.3) ? r.uni(-10, 10) * A : 0.0;
  double L = x[n - 1] - x[0], k1 = r.uni(0.5, 6) / L * 6.283, k2 = r.uni(0.5, 20) / L * 6.283, p1 = r.uni(0, 6.283);
  for (long i = 0; i < n; ++i) {
    double t = x[i] - x[0];
    if (ykind == 0) y[i] = off + A * (std::sin(k1 * t + p1) + 0.3 * std::cos(k2 * t));
    else if (ykind == 1) y[i] = off + A * r.normal();
    else if (ykind == 2) y[i] = (t < 0.3 * L) ? 0.0 : A * (t / L - 0.3) * (t / L - 0.3) * std::cos(k1 * t);
    else if (ykind == 3) y[i] = off + A * (2 * t / L - 0.7);  // straight line
    else y[i] = off + A * std::exp(-3 * t / L) + 0.01 * A * r.normal();
  }
  return y;
}
static long gen_n(vfh::Rng &r, long nmin) {
  int c = (int)r.range(0, 99);
  if (c < 10) return nmin;
  if (c < 75) return r.range(nmin, 14);
  if (c < 97) return r.range(14, 80);
  return r.range(80, 400);
}
// scales derived from the inputs only
struct Scales {
  double Y, Mx, K2, hmin, hmax, S, Dsc;
};
static Scales scales(const Eigen::VectorXd &x, const Eigen::VectorXd &y) {
  Scales s{0, 0, 0, INFINITY, 0, 0, 0};
  const long n = x.size();
  s.Y = y.cwiseAbs().maxCoeff();
  double pm = 0, ph = 0;
  for (long i = 0; i + 1 < n; ++i) {
    double h = x[i + 1] - x[i], m = (y[i + 1] - y[i]) / h;
    s.hmin = std::min(s.hmin, h); s.hmax = std::max(s.hmax, h);
    s.Mx = std::max(s.Mx, std::fabs(m));
    if (i) s.K2 = std::max(s.K2, 2 * std::fabs(m - pm) / (h + ph));
    pm = m; ph = h;
  }
  s.S = s.Y + s.K2 * s.hmax * s.hmax;
  s.Dsc = s.Mx + s.K2 * s.hmax;
  return s;
}
static std::unique_ptr<Spline> make_spline(int type) {
  if (type == 0) return std::make_unique<LinSpline>();
  if (type == 1) return std::make_unique<CubicSpline>();
  return std::make_unique<AkimaSpline>();
}
static const char *tname(int type) { return type == 0 ? "linear" : type == 1 ? "cubic" : "akima"; }

// second difference = S'' at the centre (exact for a cubic); extrapolated to the end point
static double end_curvature(Spline &sp, double xe, double h, int side, double &noise, double Yabs) {
  auto c = [&](double d) {
    volatile double x1 = xe + side * d, x2 = xe + side * 2 * d;
    LD d1 = (LD)x1 - (LD)xe, d2 = (LD)x2 - (LD)x1;
    LD f0 = sp.Calculate(xe), f1 = sp.Calculate(x1), f2 = sp.Calculate(x2);
    return (double)(2 * ((f2 - f1) / d2 - (f1 - f0) / d1) / (d1 + d2));  // = S''(x1) for a cubic (d1 == d2 up to rounding)
  };
  double c1 = c(h / 8), c2 = c(h / 16);
  noise = 3e3 * EPS * Yabs / ((h / 16) * (h / 16));
  return 2 * c2 - c1;
}

// ================================================================ part: interpolation
static void part_interp(vfh::Rng &rng, vfh::Reporter &R, long ncases, int type) {
  const long nmin = type == 0 ? 2 : type == 1 ? 3 : 4;
  for (long ic = 0; ic < ncases; ++ic) {
    bool periodic = type != 0 && rng.coin(0.25);
    long n = gen_n(rng, nmin);
    bool uniform;
    Data D;
    D.x = gen_grid(rng, n, uniform);
    D.ykind = (int)rng.range(0, 4);
    if (rng.coin(0.1)) D.ykind = 3;
    D.y = gen_y(rng, D.x, D.ykind);
    if (periodic) D.y[n - 1] = D.y[0];
    std::string fam = std::string(tname(type)) + (periodic ? "-periodic" : "");
    J w;
    w.s("spline", tname(type)).s("bc", periodic ? "periodic" : "natural").vec("x", ev(D.x)).vec("y", ev(D.y));
    const std::string ws = w.str();
    vfh::set_case(ws);
    auto sp = make_spline(type);
    sp->setBC(periodic ? Spline::splinePeriodic : Spline::splineNormal);
    sp->Interpolate(D.x, D.y);
    Scales sc = scales(D.x, D.y);
    const double xspan = std::max(std::fabs(D.x[0]), std::fabs(D.x[n - 1]));
    bool nontrivial = (D.y.maxCoeff() - D.y.minCoeff()) > 0 && n > nmin;
    if (nontrivial) {
      uint64_t h = vfh::hstr(3, fam);
      for (long i = 0; i < std::min(n, 6L); ++i) { h = vfh::hdouble(h, D.x[i]); h = vfh::hdouble(h, D.y[i]); }
      R.nontrivial(vfh::hmix(h, (uint64_t)n));
    }
    if (R.want_sample() && n <= 6 && ic % 13 == 0) R.sample(J().raw("case", ws).d("S_at_first_midpoint", sp->Calculate(0.5 * (D.x[0] + D.x[1]))));

    // a spline that is not finite cannot be judged point by point
    {
      bool fin = true;
      for (long i = 0; i + 1 < n && fin; ++i) fin = std::isfinite(sp->Calculate(0.5 * (D.x[i] + D.x[i + 1]))) && std::isfinite(sp->CalculateDerivative(D.x[i]));
      if (!fin) {
        R.eval(fam + "_finite");
        R.violation(fam + "/non-finite", "interpolating spline evaluates to nan/inf inside the grid", J().raw("case", ws));
        continue;
      }
    }
    // knots to visit
    std::vector<long> ks;
    if (n <= 40) for (long i = 0; i < n; ++i) ks.push_back(i);
    else { ks = {0, 1, n - 2, n - 1}; for (int k = 0; k < 36; ++k) ks.push_back(rng.range(0, n - 1)); }

    // ---- (a) values at the knots equal the data
    {
      double tol = 1e-9 * sc.S + 64 * EPS * sc.Dsc * xspan;
      for (long k : ks) {
        R.eval(fam + "_knot_value");
        double v = sp->Calculate(D.x[k]);
        stat(fam + "_knot_value", std::fabs(v - D.y[k]), tol);
        if (!(std::fabs(v - D.y[k]) <= tol))
          R.violation(fam + "/knot-value", "spline value at a data point differs from the data", J().raw("case", ws).i("knot", k).d("got", v).d("expected", D.y[k]));
      }
    }
    // ---- (b) continuity of value (and slope) across interior knots
    for (long k : ks) {
      if (k == 0 || k == n - 1) continue;
      double hl = D.x[k] - D.x[k - 1], hr = D.x[k + 1] - D.x[k];
      double e = std::max(1e-9 * std::min(hl, hr), 8 * EPS * std::fabs(D.x[k]));
      if (e > 1e-3 * std::min(hl, hr)) { R.counter("knot_spacing_below_resolution_not_judged"); continue; }
      volatile double xm = D.x[k] - e, xp = D.x[k] + e;
      double vm = sp->Calculate(xm), vp = sp->Calculate(xp);
      R.eval(fam + "_continuity");
      double tolv = 1e-6 * sc.S + 64 * EPS * sc.Dsc * xspan + 4 * (xp - xm) * sc.Dsc;
      stat(fam + "_continuity", std::fabs(vp - vm), tolv);
      if (!(std::fabs(vp - vm) <= tolv))
        R.violation(fam + "/value-discontinuous-at-knot", "left and right limits of the spline differ at a knot", J().raw("case", ws).i("knot", k).d("left", vm).d("right", vp).d("eps", e));
      if (type != 0) {
        double dm = sp->CalculateDerivative(xm), dp = sp->CalculateDerivative(xp);
        R.eval(fam + "_slope_continuity");
        double told = 1e-6 * sc.Dsc + 8 * (xp - xm) * sc.K2 * (sc.hmax / sc.hmin);
        stat(fam + "_slope_continuity", std::fabs(dp - dm), told);
        if (!(std::fabs(dp - dm) <= told))
          R.violation(fam + "/slope-discontinuous-at-knot", "left and right limits of the first derivative differ at a knot", J().raw("case", ws).i("knot", k).d("left", dm).d("right", dp).d("eps", e));
      }
    }
    // ---- (c) straight-line data reproduced everywhere inside the grid (natural boundaries)
    if (!periodic && D.ykind == 3) {
      // slope and intercept from the end points of the data as given
      LD a = ((LD)D.y[n - 1] - (LD)D.y[0]) / ((LD)D.x[n - 1] - (LD)D.x[0]);
      double tol = 1e-9 * sc.Y + 1e-10 * std::fabs((double)a) * (D.x[n - 1] - D.x[0]);
      double told = 1e-8 * std::fabs((double)a) + 1e-9 * sc.Y / sc.hmin;
      for (int k = 0; k < 24; ++k) {
        long iv = rng.range(0, n - 2);
        double t = k == 0 ? D.x[0] : k == 1 ? D.x[n - 1] : k < 8 ? D.x[iv] : D.x[iv] + rng.uni() * (D.x[iv + 1] - D.x[iv]);
        double want = (double)((LD)D.y[0] + a * ((LD)t - (LD)D.x[0]));
        double v = sp->Calculate(t), d = sp->CalculateDerivative(t);
        R.eval(fam + "_straight_line");
        stat(fam + "_straight_line", std::fabs(v - want), tol);
        stat(fam + "_straight_line_slope", std::fabs(d - (double)a), told);
        if (!(std::fabs(v - want) <= tol))
          R.violation(fam + "/straight-line-not-reproduced", "straight-line data are not reproduced inside the grid", J().raw("case", ws).d("at", t).d("got", v).d("expected", want));
        else if (!(std::fabs(d - (double)a) <= told))
          R.violation(fam + "/straight-line-slope", "derivative of the spline through straight-line data differs from the slope", J().raw("case", ws).d("at", t).d("got", d).d("expected", (double)a));
      }
    }
    // ---- (d) linearity in the ordinates (linear, cubic; natural)
    if (!periodic && type != 2) {
      Eigen::VectorXd y2 = gen_y(rng, D.x, (int)rng.range(0, 4));
      double al = rng.uni(-3, 3), be = rng.uni(-3, 3);
      Eigen::VectorXd y3 = al * D.y + be * y2;
      auto s2 = make_spline(type), s3 = make_spline(type);
      s2->Interpolate(D.x, y2);
      s3->Interpolate(D.x, y3);
      Scales sc2 = scales(D.x, y2);
      double tol = 1e-9 * (std::fabs(al) * sc.S + std::fabs(be) * sc2.S) + 64 * EPS * xspan * (std::fabs(al) * sc.Dsc + std::fabs(be) * sc2.Dsc);
      for (int k = 0; k < 8; ++k) {
        long iv = rng.range(0, n - 2);
        double t = D.x[iv] + rng.uni() * (D.x[iv + 1] - D.x[iv]);
        double lhs = s3->Calculate(t), rhs = al * sp->Calculate(t) + be * s2->Calculate(t);
        R.eval(fam + "_linearity");
        stat(fam + "_linearity", std::fabs(lhs - rhs), tol);
        if (!(std::fabs(lhs - rhs) <= tol))
          R.violation(fam + "/not-linear-in-ordinates", "S[a*y1+b*y2] != a*S[y1]+b*S[y2]", J().raw("case", ws).vec("y2", ev(y2)).d("alpha", al).d("beta", be).d("at", t).d("lhs", lhs).d("rhs", rhs));
      }
    }
    // ---- (e) natural cubic: curvature -> 0 at both ends
    if (!periodic && type == 1) {
      for (int side = 1; side >= -1; side -= 2) {
        double xe = side > 0 ? D.x[0] : D.x[n - 1], h = side > 0 ? D.x[1] - D.x[0] : D.x[n - 1] - D.x[n - 2];
        if (h < 1e-6 * std::fabs(xe)) { R.counter("end_interval_below_resolution_not_judged"); continue; }
        double noise, c0 = end_curvature(*sp, xe, h, side, noise, sc.S);
        R.eval(fam + "_end_curvature");
        double tol = 1e-6 * sc.K2 + noise;
        stat(fam + "_end_curvature", std::fabs(c0), tol);
        if (!(std::fabs(c0) <= tol))
          R.violation(fam + "/natural-end-curvature-nonzero", "second difference of the natural cubic spline does not vanish towards the end point", J().raw("case", ws).i("side", side).d("curvature_at_end", c0).d("curvature_scale", sc.K2));
      }
    }
    // ---- (f) periodic boundaries: value, slope (cubic: curvature) equal at both ends
    if (periodic) {
      double v0 = sp->Calculate(D.x[0]), v1 = sp->Calculate(D.x[n - 1]);
      R.eval(fam + "_end_value");
      if (!(std::fabs(v0 - v1) <= 1e-9 * sc.S + 64 * EPS * sc.Dsc * xspan))
        R.violation(fam + "/end-value-differs", "periodic spline: values at the two ends differ", J().raw("case", ws).d("first", v0).d("last", v1));
      double d0 = sp->CalculateDerivative(D.x[0]), d1 = sp->CalculateDerivative(D.x[n - 1]);
      R.eval(fam + "_end_slope");
      if (!(std::fabs(d0 - d1) <= 1e-6 * sc.Dsc))
        R.violation(fam + "/end-slope-differs", "periodic spline: slopes at the two ends differ", J().raw("case", ws).d("first", d0).d("last", d1).d("slope_scale", sc.Dsc));
      if (type == 1) {
        double n0, n1;
        double c0 = end_curvature(*sp, D.x[0], D.x[1] - D.x[0], 1, n0, sc.S), c1 = end_curvature(*sp, D.x[n - 1], D.x[n - 1] - D.x[n - 2], -1, n1, sc.S);
        R.eval(fam + "_end_curvature");
        if (!(std::fabs(c0 - c1) <= 1e-6 * sc.K2 + n0 + n1))
          R.violation(fam + "/end-curvature-differs", "periodic cubic spline: curvatures at the two ends differ", J().raw("case", ws).d("first", c0).d("last", c1).d("curvature_scale", sc.K2));
      }
    }
  }
}

// ================================================================ reference splines (long double)
enum RefBC { NATURAL = 0, PERIODIC = 1, CLAMPED0 = 2 };
static bool ld_solve(std::vector<std::vector<LD>> &A, std::vector<LD> &b) {  // Gaussian elimination, partial pivoting
  const size_t n = b.size();
  for (size_t c = 0; c < n; ++c) {
    size_t p = c;
    for (size_t r = c + 1; r < n; ++r) if (fabsl(A[r][c]) > fabsl(A[p][c])) p = r;
    if (A[p][c] == 0) return false;
    std::swap(A[p], A[c]); std::swap(b[p], b[c]);
    for (size_t r = c + 1; r < n; ++r) {
      LD f = A[r][c] / A[c][c];
      if (f == 0) continue;
      for (size_t k = c; k < n; ++k) A[r][k] -= f * A[c][k];
      b[r] -= f * b[c];
    }
  }
  for (size_t c = n; c-- > 0;) {
    for (size_t k = c + 1; k < n; ++k) b[c] -= A[c][k] * b[k];
    b[c] /= A[c][c];
  }
  return true;
}
struct RefCubic {
  std::vector<LD> x, f, f2;
  bool build(const std::vector<LD> &xx, const std::vector<LD> &ff, RefBC bc) {
    x = xx; f = ff;
    const size_t n = x.size();
    std::vector<std::vector<LD>> A(n, std::vector<LD>(n, 0));
    std::vector<LD> b(n, 0);
    auto h = [&](size_t i) { return x[i + 1] - x[i]; };
    auto m = [&](size_t i) { return (f[i + 1] - f[i]) / h(i); };
    for (size_t k = 1; k + 1 < n; ++k) {
      A[k][k - 1] = h(k - 1) / 6; A[k][k] = (h(k - 1) + h(k)) / 3; A[k][k + 1] = h(k) / 6;
      b[k] = m(k) - m(k - 1);
    }
    if (bc == NATURAL) { A[0][0] = 1; A[n - 1][n - 1] = 1; }
    else if (bc == PERIODIC) {
      A[0][0] = 1; A[0][n - 1] = -1;
      // S'(x_{n-1}-) = S'(x_0+)
      A[n - 1][n - 2] = h(n - 2) / 6; A[n - 1][n - 1] += h(n - 2) / 3; A[n - 1][0] += h(0) / 3; A[n - 1][1] += h(0) / 6;
      b[n - 1] = m(0) - m(n - 2);
    } else {
      A[0][0] = h(0) / 3; A[0][1] = h(0) / 6; b[0] = m(0);
      A[n - 1][n - 2] = h(n - 2) / 6; A[n - 1][n - 1] = h(n - 2) / 3; b[n - 1] = -m(n - 2);
    }
    if (!ld_solve(A, b)) return false;
    f2 = b;
    return true;
  }
  size_t iv(LD r) const {
    size_t i = 0;
    while (i + 2 < x.size() && r >= x[i + 1]) ++i;
    return i;
  }
  LD eval(LD r) const {
    size_t i = iv(r);
    LD h = x[i + 1] - x[i], a = (x[i + 1] - r) / h, b = (r - x[i]) / h;
    return a * f[i] + b * f[i + 1] + ((a * a * a - a) * f2[i] + (b * b * b - b) * f2[i + 1]) * h * h / 6;
  }
};
struct RefLinear {
  std::vector<LD> x, f;
  LD eval(LD r) const {
    size_t i = 0;
    while (i + 2 < x.size() && r >= x[i + 1]) ++i;
    LD b = (r - x[i]) / (x[i + 1] - x[i]);
    return (1 - b) * f[i] + b * f[i + 1];
  }
};

// ================================================================ part: fit
static void part_fit(vfh::Rng &rng, vfh::Reporter &R, long ncases, int type) {
  for (long ic = 0; ic < ncases; ++ic) {
    RefBC bc = NATURAL;
    if (type == 1) { int c = (int)rng.range(0, 3); bc = c < 2 ? NATURAL : c == 2 ? PERIODIC : CLAMPED0; }
    const char *bcn = bc == NATURAL ? "natural" : bc == PERIODIC ? "periodic" : "derivativezero";
    std::string fam = std::string("fit-") + tname(type) + (bc == NATURAL ? "" : std::string("-") + bcn);
    // fit grid
    long ng = rng.range(type == 0 ? 2 : 3, 24);
    if (bc == CLAMPED0) ng = std::max(ng, 4L);
    double hfit = rng.logu(0.02, 2);
    // abscissa scale classes (every class occurs in every run): the spline space and the least-squares problem are
    // invariant under x -> s*x, the entries of the library's fit matrix (h^2 factors) are not
    const int xclass = (int)(ic % 8);
    if (xclass == 1) hfit = rng.logu(1e-6, 1e-4);
    else if (xclass == 3) hfit = rng.logu(1e-4, 2e-2);
    else if (xclass == 5) hfit = rng.logu(2, 2e3);
    R.counter(xclass == 1 ? "fit_grid_spacing_1e-6..1e-4" : xclass == 3 ? "fit_grid_spacing_1e-4..2e-2" : xclass == 5 ? "fit_grid_spacing_2..2e3" : "fit_grid_spacing_0.02..2");
    double a = rng.coin(0.4) ? 0.0 : rng.uni(-20, 20) * hfit, b = a + hfit * (double)(ng - 1);
    auto sp = make_spline(type);
    sp->setBC(bc == NATURAL ? Spline::splineNormal : bc == PERIODIC ? Spline::splinePeriodic : Spline::splineDerivativeZero);
    bool custom = rng.coin(0.3);
    Index got = sp->GenerateGrid(a, b, hfit);
    J gj;
    gj.d("min", a).d("max", b).d("step", hfit).i("expected_points", ng);
    vfh::set_case(gj.str());
    // ---- grid generation with end-point pinning
    {
      R.eval("generategrid");
      Eigen::VectorXd &g = sp->getX();
      bool ok = got == ng && g.size() == ng && g[0] == a && g[ng - 1] == b;
      for (long i = 1; ok && i < ng; ++i) ok = g[i] > g[i - 1] && std::fabs(g[i] - (a + hfit * (double)i)) <= 1e-9 * hfit + 16 * EPS * (double)ng * std::max(std::fabs(a), std::fabs(b));
      if (!ok) {
        R.violation("spline/generategrid", "GenerateGrid(min,max,h): wrong size, end points not pinned or points off min+i*h", J().raw("grid", gj.str()).i("got_points", got).vec("grid_points", ev(g)));
        continue;
      }
    }
    if (custom) {  // non-uniform fit grid, written through getX()
      Eigen::VectorXd &g = sp->getX();
      for (long i = 1; i + 1 < ng; ++i) g[i] += rng.uni(-0.35, 0.35) * hfit;
    }
    const Eigen::VectorXd knots = sp->getX();
    std::vector<LD> kx(ng);
    for (long i = 0; i < ng; ++i) kx[i] = knots[i];
    // data abscissae: 3..8 points strictly inside every interval, sometimes the knots too
    std::vector<double> xs;
    bool withknots = rng.coin(0.4);
    for (long i = 0; i + 1 < ng; ++i) {
      if (withknots || i == 0) xs.push_back(knots[i]);
      long m = rng.range(3, 8);
      std::vector<double> u;
      for (long k = 0; k < m; ++k) u.push_back((k + rng.uni(0.15, 0.85)) / (double)m);
      for (double t : u) xs.push_back(knots[i] + t * (knots[i + 1] - knots[i]));
    }
    xs.push_back(knots[ng - 1]);
    const long N = (long)xs.size();
    Eigen::VectorXd X = Eigen::Map<Eigen::VectorXd>(xs.data(), N);
    // reference basis of the spline space: cardinal functions
    std::vector<std::vector<long>> groups;  // knot indices set to 1 together
    if (bc == NATURAL) for (long j = 0; j < ng; ++j) groups.push_back({j});
    else if (bc == PERIODIC) { groups.push_back({0, ng - 1}); for (long j = 1; j + 1 < ng; ++j) groups.push_back({j}); }
    else for (long j = 1; j + 1 < ng; ++j) groups.push_back({j});
    const long nb = (long)groups.size();
    Eigen::MatrixXd B(N, nb);
    bool refok = true;
    std::vector<RefCubic> cards(nb);
    for (long j = 0; j < nb && refok; ++j) {
      std::vector<LD> e(ng, 0);
      for (long k : groups[j]) e[k] = 1;
      if (type == 0) {
        RefLinear rl{kx, e};
        for (long i = 0; i < N; ++i) B(i, j) = (double)rl.eval(X[i]);
      } else {
        refok = cards[j].build(kx, e, bc);
        for (long i = 0; i < N && refok; ++i) B(i, j) = (double)cards[j].eval(X[i]);
      }
    }
    if (!refok) { R.counter("reference_basis_singular_skipped"); continue; }
    Eigen::JacobiSVD<Eigen::MatrixXd> svd(B);
    double cond = svd.singularValues()(0) / svd.singularValues()(nb - 1);
    if (!(cond < 1e6)) { R.counter("illconditioned_design_not_judged"); continue; }
    // ---- (1) a function of the spline space is returned by Fit
    Eigen::VectorXd coef(nb);
    double A0 = rng.logu(1e-3, 1e3), off = (bc == NATURAL && rng.coin(0.3)) ? rng.uni(-10, 10) * A0 : 0.0;
    for (long j = 0; j < nb; ++j) coef[j] = off + A0 * rng.normal();
    auto refval = [&](double t) {
      LD v = 0;
      if (type == 0) {
        std::vector<LD> f(ng, 0);
        for (long j = 0; j < nb; ++j) for (long k : groups[j]) f[k] = coef[j];
        RefLinear rl{kx, f};
        return (double)rl.eval(t);
      }
      for (long j = 0; j < nb; ++j) v += (LD)coef[j] * cards[j].eval(t);
      return (double)v;
    };
    Eigen::VectorXd Yv(N);
    for (long i = 0; i < N; ++i) Yv[i] = refval(X[i]);
    J w;
    w.s("spline", tname(type)).s("bc", bcn).vec("fit_grid", ev(knots)).vec("x", ev(X)).vec("y", ev(Yv));
    std::string ws = w.str();
    vfh::set_case(ws);
    const double Ysc = Yv.cwiseAbs().maxCoeff() + coef.cwiseAbs().maxCoeff();
    const double hmin = (knots.tail(ng - 1) - knots.head(ng - 1)).minCoeff();
    // accuracy a backward-stable least-squares solver can reach here
    const double tolfit = 1e-9 * cond * Ysc;
    bool fitted = true;
    try { sp->Fit(X, Yv); } catch (std::exception &e) {
      fitted = false;
      R.eval(fam + "_in_space");
      R.violation("fit/" + std::string(tname(type)) + (bc == NATURAL ? "" : std::string("-") + bcn) + "/rejected", std::string("Fit threw on a well-posed problem: ") + e.what(), J().raw("case", ws));
    }
    if (fitted) {
      R.eval(fam + "_in_space");
      double worst = 0, at = 0, gv = 0, wv = 0;
      for (int k = 0; k < 40; ++k) {
        long iv = rng.range(0, ng - 2);
        double t = k < ng ? knots[k] : knots[iv] + rng.uni() * (knots[iv + 1] - knots[iv]);
        double g = sp->Calculate(t), want = refval(t);
        double dv = std::fabs(g - want);
        if (!(dv <= worst)) { worst = dv; at = t; gv = g; wv = want; }
      }
      stat(fam + "_in_space", worst, tolfit);
      if (!(worst <= tolfit))
        R.violation("fit/" + std::string(tname(type)) + (bc == NATURAL ? "" : std::string("-") + bcn) + "/in-space-function-not-reproduced",
                    "Fit of data taken from a function of the spline space does not return that function", J().raw("case", ws).d("at", at).d("got", gv).d("expected", wv).d("design_condition", cond));
      uint64_t h = vfh::hstr(11, fam);
      h = vfh::hdouble(h, X[1]); h = vfh::hdouble(h, Yv[1]); h = vfh::hmix(h, (uint64_t)ng);
      R.nontrivial(h);
      if (R.want_sample() && ng <= 4 && ic % 5 == 0) R.sample(J().raw("case", ws).d("fit_at_first_knot", sp->Calculate(knots[0])).d("expected", refval(knots[0])));
    }
    // ---- (2) noisy data: the residual is orthogonal to the spline space (normal equations)
    Eigen::VectorXd Yn(N);
    double noise = rng.logu(1e-3, 1) * A0;
    for (long i = 0; i < N; ++i) Yn[i] = Yv[i] + noise * rng.normal();
    J w2;
    w2.s("spline", tname(type)).s("bc", bcn).vec("fit_grid", ev(knots)).vec("x", ev(X)).vec("y", ev(Yn));
    ws = w2.str();
    vfh::set_case(ws);
    auto sp2 = make_spline(type);
    sp2->setBC(bc == NATURAL ? Spline::splineNormal : bc == PERIODIC ? Spline::splinePeriodic : Spline::splineDerivativeZero);
    sp2->getX() = knots;
    try { sp2->Fit(X, Yn); } catch (std::exception &e) {
      R.eval(fam + "_normal_equations");
      R.violation("fit/" + std::string(tname(type)) + (bc == NATURAL ? "" : std::string("-") + bcn) + "/rejected", std::string("Fit threw on a well-posed problem: ") + e.what(), J().raw("case", ws));
      continue;
    }
    {
      Eigen::VectorXd res(N);
      for (long i = 0; i < N; ++i) res[i] = Yn[i] - sp2->Calculate(X[i]);
      R.eval(fam + "_normal_equations");
      const double Yn2 = Yn.norm() + std::sqrt((double)N) * coef.cwiseAbs().maxCoeff();
      double worst = 0;
      long wj = -1;
      for (long j = 0; j < nb; ++j) {
        double dot = B.col(j).dot(res), tol = 1e-9 * cond * B.col(j).norm() * Yn2;
        stat(fam + "_normal_equations", std::fabs(dot), tol);
        if (!(std::fabs(dot) <= tol) && !(std::fabs(dot) / tol <= worst)) { worst = std::fabs(dot) / tol; wj = j; }
      }
      if (wj >= 0)
        R.violation("fit/" + std::string(tname(type)) + (bc == NATURAL ? "" : std::string("-") + bcn) + "/residual-not-orthogonal",
                    "fit residual is not orthogonal to a basis function of the spline space (not the least-squares optimum)",
                    J().raw("case", ws).i("basis_function_of_knot", groups[wj][0]).d("dot_over_tolerance", worst).d("design_condition", cond));
      // the fitted function must itself be a member of the spline space: periodic / zero-slope ends
      Scales sc = scales(X, Yn);
      if (bc == PERIODIC) {
        double d0 = sp2->CalculateDerivative(knots[0]), d1 = sp2->CalculateDerivative(knots[ng - 1]);
        double v0 = sp2->Calculate(knots[0]), v1 = sp2->Calculate(knots[ng - 1]);
        R.eval(fam + "_end_conditions");
        if (!(std::fabs(v0 - v1) <= 1e-7 * cond * Ysc))
          R.violation("fit/cubic-periodic/end-value-differs", "periodic fit: values at the two ends differ", J().raw("case", ws).d("first", v0).d("last", v1));
        if (!(std::fabs(d0 - d1) <= 1e-7 * cond * Ysc / hmin))
          // observation only: the statement's periodic clause (equal value, slope, curvature at the ends) is about
          // *interpolating* splines; for a fit it only demands the least-squares optimum on the grid.
          R.counter("observed_only_fit_periodic_end_slopes_differ");
      }
      if (bc == CLAMPED0) {
        double d0 = sp2->CalculateDerivative(knots[0]), d1 = sp2->CalculateDerivative(knots[ng - 1]);
        R.eval(fam + "_end_conditions");
        if (!(std::fabs(d0) <= 1e-7 * cond * Ysc / hmin && std::fabs(d1) <= 1e-7 * cond * Ysc / hmin))
          R.violation("fit/cubic-derivativezero/end-slope-nonzero", "derivativezero fit: slope at an end point is not zero", J().raw("case", ws).d("first", d0).d("last", d1).d("slope_scale", sc.Mx));
      }
    }
  }
}

// ================================================================ grid-size rule, decimal numbers
// the double a parser produces for the decimal number milli/1000
static double dec3(long milli) {
  char b[64];
  snprintf(b, sizeof b, "%s%ld.%03ld", milli < 0 ? "-" : "", std::labs(milli) / 1000, std::labs(milli) % 1000);
  return strtod(b, nullptr);
}
// number of points of a grid min:step:max. An integer number of steps up to rounding (decimal grids such as
// 0:0.1:0.7, where (max-min)/step is one ulp below 7) must give round()+1 points; a ratio that is genuinely
// just below an integer (by 1e-9..1e-6) lies inside the code's own 1e-8 slack and is a don't-care.
static long grid_points(double mn, double mx, double sp, bool &dontcare) {
  LD ratio = ((LD)mx - (LD)mn) / (LD)sp;
  dontcare = false;
  if (fabsl(ratio - roundl(ratio)) <= 1e-9L * std::max((LD)1, ratio)) return (long)roundl(ratio) + 1;
  if (ratio - floorl(ratio) >= 1 - 1e-6L) dontcare = true;
  return (long)floorl(ratio) + 1;
}
struct GridSpec {
  double mn, mx, sp;
  bool decimal;
};
static GridSpec gen_gridspec(vfh::Rng &rng) {
  GridSpec g;
  g.decimal = rng.coin(0.4);
  if (g.decimal) {
    static const long steps[] = {1, 2, 5, 10, 20, 25, 50, 100, 125, 200, 250, 500};
    long sm = steps[rng.range(0, 11)], k = rng.range(1, 400);
    long m0 = rng.coin(0.5) ? sm * rng.range(-20, 40) : rng.range(-2000, 4000);
    int fixed = (int)rng.range(0, 9);
    if (fixed == 0) { m0 = 0; sm = 100; k = 7; }     // 0:0.1:0.7
    if (fixed == 1) { m0 = 50; sm = 50; k = 24; }    // 0.05:0.05:1.25
    if (fixed == 2) { m0 = 0; sm = 10; k = 136; }    // 0:0.01:1.36
    g.sp = dec3(sm); g.mn = dec3(m0); g.mx = dec3(m0 + k * sm);
  } else {
    long n = rng.range(2, 500);
    g.mn = rng.coin(0.3) ? 0.0 : rng.uni(-20, 20);
    g.sp = rng.logu(1e-3, 1);
    if (rng.coin(0.5)) g.sp = std::max(1e-3, std::round(g.sp * 1000) / 1000);
    g.mx = g.mn + g.sp * ((double)(n - 1) + (rng.coin(0.3) ? rng.uni(0.05, 0.95) : 0.0));
  }
  return g;
}
// judge the result of Table::GenerateGridSpacing; returns false when a violation was reported
static bool judge_gridspacing(vfh::Reporter &R, Table &t, const GridSpec &g, const std::string &keypref, const std::string &wj) {
  bool dontcare;
  long nexp = grid_points(g.mn, g.mx, g.sp, dontcare);
  if (g.decimal) R.counter("gridspacing_decimal_grids");
  if (t.size() != nexp) {
    if (dontcare) { R.counter("gridspacing_just_below_integer_ratio_dontcare"); return true; }
    R.violation(keypref + "/size", "GenerateGridSpacing: number of points differs from (max-min)/spacing+1", J().raw("case", wj).i("got", t.size()).i("expected", nexp));
    return false;
  }
  bool ok = t.x(0) == g.mn && t.x(nexp - 1) == g.mx;
  double hs = nexp > 1 ? (g.mx - g.mn) / (double)(nexp - 1) : 0.0;
  double tolx = 1e-9 * hs + 16 * EPS * (double)nexp * std::max(std::fabs(g.mn), std::fabs(g.mx));
  for (long i = 1; ok && i < nexp; ++i) {
    ok = t.x(i) > t.x(i - 1) && std::fabs(t.x(i) - (g.mn + hs * (double)i)) <= tolx;
    // an integer number of steps: x_i = min + i*step
    if (ok && g.decimal) ok = std::fabs(t.x(i) - (double)((LD)g.mn + (LD)i * (LD)g.sp)) <= tolx;
  }
  if (!ok) { R.violation(keypref + "/points", "GenerateGridSpacing: end points not pinned or grid points off min+i*step", J().raw("case", wj).vec("grid", ev(t.x()))); return false; }
  return true;
}

// ================================================================ part: tables
static void part_table(vfh::Rng &rng, vfh::Reporter &R, long ncases, const std::string &tmp) {
  for (long ic = 0; ic < ncases; ++ic) {
    // ---------------- Smooth
    {
      long n = rng.coin(0.2) ? rng.range(2, 4) : rng.range(3, 200);
      bool line = rng.coin(0.4);
      Table t;
      t.resize(n);
      double A = rng.logu(1e-3, 1e3), sl = rng.uni(-2, 2) * A, off = rng.uni(-5, 5) * A, x0 = rng.uni(-5, 5), h = rng.logu(1e-3, 1);
      for (long i = 0; i < n; ++i) t.set(i, x0 + h * (double)i, line ? off + sl * (double)i / (double)n : off + A * rng.normal(), "iou"[rng.range(0, 2)]);
      Eigen::VectorXd y0 = t.y(), xx = t.x();
      long ns = rng.range(1, 6);
      J w;
      w.i("Nsmooth", ns).vec("x", ev(xx)).vec("y", ev(y0));
      vfh::set_case(w.str());
      t.Smooth(ns);
      R.eval("table_smooth");
      if (!(t.y(0) == y0[0] && t.y(n - 1) == y0[n - 1]))
        R.violation("table/smooth/end-point-moved", "Table::Smooth changed an end point", J().raw("case", w.str()).d("first_after", t.y(0)).d("last_after", t.y(n - 1)));
      if (line) {
        double dv = (t.y() - y0).cwiseAbs().maxCoeff(), tol = 16 * EPS * (double)ns * y0.cwiseAbs().maxCoeff();
        stat("table_smooth_line", dv, tol);
        if (!(dv <= tol))
          R.violation("table/smooth/straight-line-changed", "Table::Smooth changed straight-line data on a uniform grid", J().raw("case", w.str()).vec("y_after", ev(t.y())));
      }
      if (n >= 3) R.nontrivial(vfh::hdouble(vfh::hdouble(vfh::hmix(71, (uint64_t)n), y0[1]), (double)ns));
    }
    // ---------------- Save / Load
    {
      long n = rng.coin(0.1) ? rng.range(1, 3) : rng.range(2, 300);
      bool yerr = rng.coin(0.3), comment = rng.coin(0.3);
      Table t;
      t.SetHasYErr(yerr);
      t.resize(n);
      double x = rng.uni(-10, 10), A = rng.logu(1e-6, 1e6);
      std::vector<double> xs, ys;
      std::string fl;
      for (long i = 0; i < n; ++i) {
        x += rng.logu(1e-4, 1);
        int c = (int)rng.range(0, 9);
        double y = c == 0 ? 0.0 : c == 1 ? A * rng.logu(1e-12, 1) * (rng.coin() ? 1 : -1) : A * rng.normal();
        char f = "iou"[rng.range(0, 2)];
        if (yerr) t.set(i, x, y, f, std::fabs(y) * rng.uni(0, 0.1)); else t.set(i, x, y, f);
        xs.push_back(x); ys.push_back(y); fl += f;
      }
      if (comment) t.set_comment(rng.coin() ? "generated table\nsecond line" : "one line with \\n escaped break");
      std::string fn = tmp + "/t.tab";
      J w;
      w.vec("x", xs).vec("y", ys).s("flags", fl).b("has_yerr", yerr).b("comment", comment);
      vfh::set_case(w.str());
      std::remove(fn.c_str());
      t.Save(fn);
      Table u;
      u.Load(fn);
      R.eval("table_saveload");
      if (yerr) R.counter("saveload_with_error_column(error_column_not_judged_here,see_C08)");
      if (u.size() != n) {
        R.violation("table/saveload/size", "loaded table has a different number of rows", J().raw("case", w.str()).i("got", u.size()));
      } else {
        for (long i = 0; i < n; ++i) {
          // 10 significant digits are written
          bool okx = std::fabs(u.x(i) - xs[i]) <= 5.0001e-10 * std::fabs(xs[i]);
          bool oky = std::fabs(u.y(i) - ys[i]) <= 5.0001e-10 * std::fabs(ys[i]);
          if (!okx || !oky) { R.violation("table/saveload/value", "x or y changed by more than the written precision (10 digits)", J().raw("case", w.str()).i("row", i).d("x_loaded", u.x(i)).d("y_loaded", u.y(i))); break; }
          if (u.flags(i) != fl[i]) { R.violation("table/saveload/flag", "flag changed in a save/load round trip", J().raw("case", w.str()).i("row", i).s("loaded", std::string(1, u.flags(i)))); break; }
        }
      }
      if (n >= 2) R.nontrivial(vfh::hdouble(vfh::hdouble(vfh::hmix(73, (uint64_t)n), ys[1]), xs[0]));
      std::remove(fn.c_str());
    }
    // ---------------- GenerateGridSpacing
    {
      GridSpec g = gen_gridspec(rng);
      Table t;
      J w;
      w.d("min", g.mn).d("max", g.mx).d("spacing", g.sp).b("decimal", g.decimal);
      vfh::set_case(w.str());
      t.GenerateGridSpacing(g.mn, g.mx, g.sp);
      R.eval("table_gridspacing");
      judge_gridspacing(R, t, g, "table/gridspacing", w.str());
    }
  }
}


// ================================================================ part: object reuse
// A used object must behave exactly like a fresh one: spline objects that are Interpolate()d / Fit()ted
// again with other data, sizes, grids and boundary settings; Table objects that are resized, loaded,
// smoothed and gridded again.
static bool same(double a, double b) { return a == b || (std::isnan(a) && std::isnan(b)); }
static bool nearly(double a, double b) {  // identical up to the last digits (same code path, same inputs)
  return same(a, b) || std::fabs(a - b) <= 1e-12 * std::max(std::fabs(a), std::fabs(b));
}
struct SpOp {
  int kind;  // 0 Interpolate  1 GenerateGrid+Fit  2 Fit on the grid generated by the previous Fit op
  int bc;    // 0 natural 1 periodic 2 derivativezero
  bool bcint;
  Eigen::VectorXd x, y;  // data
  double ga = 0, gb = 0, gh = 0;  // fit grid
  std::string json() const {
    J j;
    j.s("op", kind == 0 ? "Interpolate" : kind == 1 ? "GenerateGrid+Fit" : "Fit(same grid)").s("bc", bc == 0 ? "natural" : bc == 1 ? "periodic" : "derivativezero").b("via_setBCInt", bcint)
        .vec("x", ev(x)).vec("y", ev(y));
    if (kind) j.d("grid_min", ga).d("grid_max", gb).d("grid_step", gh);
    return j.str();
  }
};
static void apply_bc(Spline &sp, const SpOp &o) {
  if (o.bcint) sp.setBCInt(o.bc);
  else sp.setBC(o.bc == 0 ? Spline::splineNormal : o.bc == 1 ? Spline::splinePeriodic : Spline::splineDerivativeZero);
}
// returns the what() of an exception, "" when none
static std::string apply_op(Spline &sp, const SpOp &o) {
  try {
    apply_bc(sp, o);
    if (o.kind == 0) sp.Interpolate(o.x, o.y);
    else {
      if (o.kind == 1) sp.GenerateGrid(o.ga, o.gb, o.gh);
      sp.Fit(o.x, o.y);
    }
  } catch (std::exception &e) { return std::string("exception: ") + e.what(); }
  return "";
}
static SpOp gen_interp_op(vfh::Rng &rng, int type, const SpOp *prev, int variant) {
  const long nmin = type == 0 ? 2 : type == 1 ? 3 : 4;
  SpOp o;
  o.kind = 0;
  o.bcint = rng.coin();
  o.bc = type == 0 ? (int)rng.range(0, 2) : (int)rng.range(0, 1);
  bool uni;
  bool prev_interp = prev && prev->kind == 0;
  if (prev_interp && variant == 1) { o.x = gen_grid(rng, prev->x.size(), uni); }                       // same size, other grid
  else if (prev_interp && variant == 2) { o.x = prev->x; }                                             // same grid, other ordinates
  else if (prev_interp && variant == 3) { o.x = prev->x; o.y = prev->y; o.bc = type == 0 ? (prev->bc + 1) % 3 : 1 - prev->bc; }  // only the boundary setting changes
  else { long n = gen_n(rng, nmin); if (prev_interp && n == prev->x.size()) ++n; o.x = gen_grid(rng, n, uni); }  // other size
  if (o.y.size() == 0) o.y = gen_y(rng, o.x, (int)rng.range(0, 4));
  if (o.bc == 1) o.y[o.y.size() - 1] = o.y[0];
  return o;
}
static SpOp gen_fit_op(vfh::Rng &rng, const SpOp *prevfit, bool samegrid) {
  SpOp o;
  o.kind = samegrid ? 2 : 1;
  o.bcint = rng.coin();
  o.bc = (int)rng.range(0, 2);
  long ng;
  if (samegrid) { o.ga = prevfit->ga; o.gb = prevfit->gb; o.gh = prevfit->gh; o.bc = prevfit->bc; ng = (long)std::llround((o.gb - o.ga) / o.gh) + 1; }
  else {
    ng = rng.range(4, 16);
    o.gh = rng.logu(0.02, 2);
    o.ga = rng.coin(0.4) ? 0.0 : rng.uni(-20, 20) * o.gh;
    o.gb = o.ga + o.gh * (double)(ng - 1);
  }
  long per = rng.range(4, 7), N = (ng - 1) * per + 1;
  o.x.resize(N);
  for (long i = 0; i < N; ++i) o.x[i] = o.ga + (o.gb - o.ga) * (double)i / (double)(N - 1);
  o.y = gen_y(rng, o.x, (int)rng.range(0, 4));
  return o;
}
static void part_reuse_spline(vfh::Rng &rng, vfh::Reporter &R, long ncases, int type) {
  static const char *pat_name[] = {"interpolate-twice", "fit-after-interpolate", "interpolate-after-fit", "fit-twice", "generategrid-fit-twice", "interpolate-twice"};
  for (long ic = 0; ic < ncases; ++ic) {
    int pat = (int)(ic % 6);
    if (type == 2 && pat >= 1 && pat <= 4) pat = (pat % 2) ? 0 : 5;  // Akima: no Fit
    std::vector<SpOp> ops;
    if (pat == 0) { ops.push_back(gen_interp_op(rng, type, nullptr, 0)); ops.push_back(gen_interp_op(rng, type, &ops[0], (int)((ic / 6) % 4))); }
    else if (pat == 1) { ops.push_back(gen_interp_op(rng, type, nullptr, 0)); ops.push_back(gen_fit_op(rng, nullptr, false)); }
    else if (pat == 2) { ops.push_back(gen_fit_op(rng, nullptr, false)); ops.push_back(gen_interp_op(rng, type, nullptr, 0)); }
    else if (pat == 3) { ops.push_back(gen_fit_op(rng, nullptr, false)); ops.push_back(gen_fit_op(rng, nullptr, false)); }
    else if (pat == 4) { ops.push_back(gen_fit_op(rng, nullptr, false)); SpOp o2 = gen_fit_op(rng, &ops[0], true); ops.push_back(o2); }
    else {
      ops.push_back(gen_interp_op(rng, type, nullptr, 0));
      SpOp o2 = gen_interp_op(rng, type, &ops[0], (int)rng.range(0, 3));
      ops.push_back(o2);
      SpOp o3 = gen_interp_op(rng, type, &ops[1], (int)rng.range(0, 3));
      ops.push_back(o3);
    }
    std::string fam = std::string("spline-reuse/") + tname(type) + "/" + pat_name[pat];
    std::string wj = "[";
    for (size_t k = 0; k < ops.size(); ++k) wj += (k ? "," : "") + ops[k].json();
    wj += "]";
    vfh::set_case(wj);
    auto used = make_spline(type), fresh = make_spline(type);
    std::string eu;
    for (size_t k = 0; k < ops.size(); ++k) {
      eu = apply_op(*used, ops[k]);
      // the object is really used between the operations
      if (eu.empty() && k + 1 < ops.size()) {
        const Eigen::VectorXd &g = used->getX();
        for (int q = 0; q < 3; ++q) { double t = g[0] + rng.uni(-0.2, 1.2) * (g[g.size() - 1] - g[0]); (void)used->Calculate(t); (void)used->CalculateDerivative(t); }
      }
    }
    const SpOp &last = ops.back();
    SpOp lf = last;
    if (lf.kind == 2) lf.kind = 1;  // the fresh object generates the same grid itself
    std::string ef = apply_op(*fresh, lf);
    R.eval(std::string("spline-reuse_") + tname(type) + "_" + pat_name[pat]);
    if (eu != ef) {
      R.violation(fam, "the reused object and a fresh object disagree on accepting the last operation", J().raw("operations", wj).s("reused", eu).s("fresh", ef));
      continue;
    }
    if (!ef.empty()) { R.counter("reuse_last_operation_rejected_by_both:" + ef.substr(0, 60)); continue; }
    const Eigen::VectorXd gu = used->getX(), gf = fresh->getX();
    bool bad = gu.size() != gf.size();
    for (long i = 0; !bad && i < gf.size(); ++i) bad = !same(gu[i], gf[i]);
    if (bad) {
      R.violation(fam, "grid of the reused object differs from the grid of a fresh object", J().raw("operations", wj).vec("grid_reused", ev(gu)).vec("grid_fresh", ev(gf)));
      continue;
    }
    const long nk = gf.size();
    const double L = gf[nk - 1] - gf[0];
    for (int q = 0; q < 24 && !bad; ++q) {
      long iv = rng.range(0, nk - 2);
      double t = q < 4 ? gf[q == 0 ? 0 : q == 1 ? nk - 1 : q == 2 ? 1 % nk : nk - 2]
                       : q < 8 ? (q % 2 ? gf[0] - rng.logu(1e-3, 2) * L : gf[nk - 1] + rng.logu(1e-3, 2) * L)
                               : gf[iv] + rng.uni() * (gf[iv + 1] - gf[iv]);
      double vu = used->Calculate(t), vf = fresh->Calculate(t), du = used->CalculateDerivative(t), df = fresh->CalculateDerivative(t);
      if (!nearly(vu, vf) || !nearly(du, df)) {
        bad = true;
        R.violation(fam, "a spline object used before answers differently from a fresh object given the same last operation",
                    J().raw("operations", wj).d("at", t).d("value_reused", vu).d("value_fresh", vf).d("derivative_reused", du).d("derivative_fresh", df));
      }
    }
    if (!bad) {
      uint64_t h = vfh::hstr(17, fam);
      h = vfh::hdouble(h, last.x[last.x.size() - 1]); h = vfh::hdouble(h, last.y[0]); h = vfh::hmix(h, (uint64_t)ops[0].x.size());
      R.nontrivial(h);
      if (R.want_sample() && last.x.size() <= 6 && ops[0].x.size() <= 6) R.sample(J().raw("operations", wj).d("value_at_first_knot_reused", used->Calculate(gf[0])).d("value_at_first_knot_fresh", fresh->Calculate(gf[0])));
    }
  }
}

static bool tables_equal(Table &a, Table &b, std::string &why) {
  if (a.size() != b.size()) { why = "size"; return false; }
  for (Index i = 0; i < a.size(); ++i) {
    if (!same(a.x(i), b.x(i))) { why = "x"; return false; }
    if (!same(a.y(i), b.y(i))) { why = "y"; return false; }
    if (a.flags(i) != b.flags(i)) { why = "flags"; return false; }
  }
  return true;
}
static void fill_table(vfh::Rng &rng, Table &t, long n, std::vector<double> &xs, std::vector<double> &ys, std::string &fl) {
  xs.clear(); ys.clear(); fl.clear();
  double x = rng.uni(-10, 10), A = rng.logu(1e-3, 1e3);
  for (long i = 0; i < n; ++i) {
    x += rng.logu(1e-3, 1);
    xs.push_back(x); ys.push_back(A * rng.normal()); fl += "iou"[rng.range(0, 2)];
  }
  t.resize(n);
  for (long i = 0; i < n; ++i) t.set(i, xs[i], ys[i], fl[i]);
}
static void part_reuse_table(vfh::Rng &rng, vfh::Reporter &R, long ncases, const std::string &tmp) {
  for (long ic = 0; ic < ncases; ++ic) {
    int op = (int)(ic % 5);
    std::vector<double> xs, ys;
    std::string fl, why;
    if (op == 0) {  // resize / set twice (growing and shrinking), optionally with the error column switched
      long n1 = rng.range(1, 200), n2 = rng.range(1, 200);
      Table used, fresh;
      if (rng.coin(0.3)) used.SetHasYErr(true);
      fill_table(rng, used, n1, xs, ys, fl);
      if (rng.coin(0.3)) used.SetHasYErr(false);
      fill_table(rng, used, n2, xs, ys, fl);
      fresh.resize(n2);
      for (long i = 0; i < n2; ++i) fresh.set(i, xs[i], ys[i], fl[i]);
      J w; w.i("first_size", n1).vec("x", xs).vec("y", ys).s("flags", fl);
      vfh::set_case(w.str());
      R.eval("table-reuse_resize_set");
      if (!tables_equal(used, fresh, why)) R.violation("table-reuse/resize-set-twice", "a table resized and set a second time differs from a fresh table (" + why + ")", J().raw("case", w.str()).i("size_reused", used.size()));
      else R.nontrivial(vfh::hdouble(vfh::hmix(81, (uint64_t)(n1 * 1000 + n2)), ys[0]));
    } else if (op == 1) {  // Load twice; clear + push_back
      long n1 = rng.range(1, 200), n2 = rng.range(1, 200);
      Table a, b, used, fresh;
      std::vector<double> x1, y1; std::string f1;
      fill_table(rng, a, n1, x1, y1, f1);
      fill_table(rng, b, n2, xs, ys, fl);
      std::string fa = tmp + "/a.tab", fb = tmp + "/b.tab";
      a.Save(fa); b.Save(fb);
      J w; w.i("first_size", n1).vec("x", xs).vec("y", ys).s("flags", fl);
      vfh::set_case(w.str());
      bool viaclear = rng.coin(0.3);
      used.Load(fa);
      if (viaclear) { used.clear(); for (long i = 0; i < n2; ++i) used.push_back(xs[i], ys[i], fl[i]); for (long i = 0; i < n2; ++i) fresh.push_back(xs[i], ys[i], fl[i]); }
      else { used.Load(fb); fresh.Load(fb); }
      R.eval("table-reuse_load");
      if (viaclear && used.size() != n2) R.violation("table-reuse/clear", "clear() did not empty the table", J().raw("case", w.str()).i("size", used.size()));
      else if (!tables_equal(used, fresh, why)) R.violation(viaclear ? "table-reuse/clear" : "table-reuse/load-twice", "a table loaded (or cleared and filled) a second time differs from a fresh table (" + why + ")", J().raw("case", w.str()).i("size_reused", used.size()).i("size_fresh", fresh.size()));
      else R.nontrivial(vfh::hdouble(vfh::hmix(83, (uint64_t)(n1 * 1000 + n2)), ys[0]));
      std::remove(fa.c_str()); std::remove(fb.c_str());
    } else if (op == 2) {  // Smooth(a) then Smooth(b) == Smooth(a+b)
      long n = rng.range(3, 200), a = rng.range(1, 4), b = rng.range(1, 4);
      Table used, fresh;
      fill_table(rng, used, n, xs, ys, fl);
      fresh.resize(n);
      for (long i = 0; i < n; ++i) fresh.set(i, xs[i], ys[i], fl[i]);
      J w; w.i("first", a).i("second", b).vec("x", xs).vec("y", ys);
      vfh::set_case(w.str());
      used.Smooth(a); used.Smooth(b);
      fresh.Smooth(a + b);
      R.eval("table-reuse_smooth");
      if (!tables_equal(used, fresh, why)) R.violation("table-reuse/smooth-twice", "Smooth(a) followed by Smooth(b) differs from Smooth(a+b) (" + why + ")", J().raw("case", w.str()).vec("y_twice", ev(used.y())).vec("y_once", ev(fresh.y())));
      else R.nontrivial(vfh::hdouble(vfh::hmix(85, (uint64_t)(n * 100 + a * 10 + b)), ys[1]));
    } else {  // GenerateGridSpacing twice with other parameters (op 4: on a table that was loaded/filled before)
      GridSpec g1 = gen_gridspec(rng), g2 = gen_gridspec(rng);
      Table used, fresh;
      if (op == 4) fill_table(rng, used, rng.range(1, 300), xs, ys, fl);
      J w;
      w.d("first_min", g1.mn).d("first_max", g1.mx).d("first_spacing", g1.sp).d("min", g2.mn).d("max", g2.mx).d("spacing", g2.sp).b("decimal", g2.decimal).b("table_filled_before", op == 4);
      vfh::set_case(w.str());
      used.GenerateGridSpacing(g1.mn, g1.mx, g1.sp);
      used.GenerateGridSpacing(g2.mn, g2.mx, g2.sp);
      fresh.GenerateGridSpacing(g2.mn, g2.mx, g2.sp);
      R.eval("table-reuse_gridspacing");
      bool ok = used.size() == fresh.size();
      for (Index i = 0; ok && i < fresh.size(); ++i) ok = same(used.x(i), fresh.x(i));
      if (!ok) R.violation("table-reuse/gridspacing-twice", "GenerateGridSpacing on a used table differs from a fresh table", J().raw("case", w.str()).i("size_reused", used.size()).i("size_fresh", fresh.size()));
      else if (judge_gridspacing(R, used, g2, "table-reuse/gridspacing", w.str())) R.nontrivial(vfh::hdouble(vfh::hdouble(vfh::hmix(87, (uint64_t)used.size()), g2.sp), g1.sp));
    }
  }
}

static struct sigaction g_old_abrt;
static void on_abort(int sig, siginfo_t *si, void *ctx) {
  vfh::abort_handler(sig);
  if (g_old_abrt.sa_flags & SA_SIGINFO) {
    if (g_old_abrt.sa_sigaction) g_old_abrt.sa_sigaction(sig, si, ctx);
  } else if (g_old_abrt.sa_handler != SIG_DFL && g_old_abrt.sa_handler != SIG_IGN) g_old_abrt.sa_handler(sig);
}

int main(int argc, char **argv) {
  struct sigaction sa;
  memset(&sa, 0, sizeof sa);
  sa.sa_sigaction = on_abort;
  sa.sa_flags = SA_SIGINFO | SA_RESETHAND;
  sigaction(SIGABRT, &sa, &g_old_abrt);
  vfh::Args A(argc, argv);
  long seed = A.num("seed", 1), shard = A.num("shard", 0), n = A.num("n", 100);
  std::string part = A.str("part", "interp"), ty = A.str("type", "cubic"), tmp = A.str("tmp", ".");
  int type = ty == "linear" ? 0 : ty == "cubic" ? 1 : 2;
  g_stats = A.has("stats");
  vfh::Rng rng(seed * 7919 + shard * 104729 + vfh::hstr(3, part + ty) % 1000003);
  vfh::Reporter R;
  if (part == "interp") part_interp(rng, R, n, type);
  else if (part == "fit") part_fit(rng, R, n, type);
  else if (part == "table") part_table(rng, R, n, tmp);
  else if (part == "reuse" && ty == "table") part_reuse_table(rng, R, n, tmp);
  else if (part == "reuse") part_reuse_spline(rng, R, n, type);
  else { std::cerr << "unknown part\n"; return 3; }
  R.summary();
  for (auto &kv : g_worst) std::cerr << "STAT worst diff/tol " << kv.first << " " << kv.second << "\n";
  return 0;
}
