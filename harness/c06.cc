// C06 monitor (library part): tools::linalg_constrained_qrsolve (DESIGN.md §5 C06 (c)).
// Real code: votca::tools::linalg_constrained_qrsolve(A, b, B) - minimise |Ax-b| subject to Bx = 0.
// Oracle: KKT conditions with an independent null-space basis Z of B (Jacobi SVD, long double residuals):
//   |Bx| <= 1e-10 |B||x|   and   Z^T A^T (Ax-b) ~ 0;  plus comparison with x_ref = Z (AZ)^+ b.
#include "vfh.h"
#include <votca/tools/cubicspline.h>
#include <votca/tools/linalg.h>
#include <Eigen/Dense>

using vfh::J;
using Eigen::MatrixXd;
using Eigen::VectorXd;
typedef long double LD;
typedef Eigen::Matrix<LD, Eigen::Dynamic, Eigen::Dynamic> MatL;
typedef Eigen::Matrix<LD, Eigen::Dynamic, 1> VecL;

static MatrixXd randn(vfh::Rng &r, long m, long n) {
  MatrixXd M(m, n);
  for (long i = 0; i < m; ++i)
    for (long j = 0; j < n; ++j) M(i, j) = r.normal();
  return M;
}
static MatrixXd orth(vfh::Rng &r, long n) {
  Eigen::HouseholderQR<MatrixXd> qr(randn(r, n, n));
  return qr.householderQ();
}
static std::string mat_json(const MatrixXd &M) {
  std::ostringstream o;
  o << std::setprecision(17) << "[";
  for (long i = 0; i < M.rows(); ++i) {
    o << (i ? "," : "") << "[";
    for (long j = 0; j < M.cols(); ++j) o << (j ? "," : "") << M(i, j);
    o << "]";
  }
  o << "]";
  return o.str();
}
static std::vector<double> vv(const VectorXd &v) { return std::vector<double>(v.data(), v.data() + v.size()); }

int main(int argc, char **argv) {
  vfh::Args Ar(argc, argv);
  long seed = Ar.num("seed", 1), shard = Ar.num("shard", 0), ncase = Ar.num("n", 200);
  vfh::Rng rng(seed * 7919 + shard * 104729 + 606);
  vfh::Reporter R;

  for (long ic = 0; ic < ncase; ++ic) {
    int fam = (int)rng.range(0, 3);  // 0 dense, 1 scaled rows/blocks, 2 spline-structured (as csg_fmatch / CubicSpline::Fit), 3 consistent rhs
    const char *famname = fam == 0 ? "dense" : fam == 1 ? "scaled" : fam == 2 ? "spline" : "consistent";
    long n, p, m;
    MatrixXd A, B;
    VectorXd b;
    if (fam == 2) {
      // constraints and design rows produced by the real CubicSpline helpers (the way csg_fmatch uses the solver)
      long ng = rng.range(3, 12);
      votca::tools::CubicSpline sp;
      double lo = rng.uni(0, 1), h = rng.uni(0.05, 0.5);
      ng = sp.GenerateGrid(lo, lo + h * (double)(ng - 1), h);
      n = 2 * ng;
      p = ng;
      m = rng.range(4 * ng, 12 * ng);
      B = MatrixXd::Zero(p, n);
      sp.AddBCToFitMatrix(B, 0);
      A = MatrixXd::Zero(m, n);
      b = VectorXd::Zero(m);
      for (long i = 0; i < m; ++i) {
        double x = lo + h * (double)(ng - 1) * ((double)i + rng.uni(0.05, 0.95)) / (double)m;
        sp.AddToFitMatrix(A, x, i, 0, rng.coin() ? 1.0 : rng.uni(-2, 2));
        b(i) = rng.normal();
      }
    } else {
      n = rng.range(2, 30);
      p = rng.range(1, n - 1);
      long dof = n - p;
      m = dof + rng.range(0, 40);
      // B = U diag(s) V^T with prescribed singular values (full row rank, cond <= 1e4)
      MatrixXd U = orth(rng, p), V = orth(rng, n);
      double bs = rng.logu(1e-3, 1e3), cond = rng.logu(1, 1e4);
      B = MatrixXd::Zero(p, n);
      for (long k = 0; k < p; ++k) {
        double s = bs * std::pow(cond, -(double)k / (double)std::max<long>(1, p - 1));
        B += s * U.col(k) * V.col(k).transpose();
      }
      A = randn(rng, m, n) * rng.logu(1e-2, 1e2);
      if (fam == 1) {
        for (long i = 0; i < m; ++i) A.row(i) *= rng.logu(1e-2, 1e2);
        for (long j = 0; j < n; ++j) A.col(j) *= rng.logu(1e-1, 1e1);
      }
      b = randn(rng, m, 1) * rng.logu(1e-2, 1e2);
      if (fam == 3) {  // rhs reachable by a feasible x: residual 0 at the optimum
        Eigen::JacobiSVD<MatrixXd> svdB(B, Eigen::ComputeFullV);
        MatrixXd Z0 = svdB.matrixV().rightCols(dof);
        b = A * (Z0 * randn(rng, dof, 1));
      }
    }
    long dof = n - p;
    // independent null-space basis of B
    Eigen::JacobiSVD<MatrixXd> svd(B, Eigen::ComputeFullV);
    VectorXd sv = svd.singularValues();
    if (sv(p - 1) < 1e-8 * sv(0)) { R.counter("skipped_B_not_full_row_rank"); continue; }
    MatrixXd Z = svd.matrixV().rightCols(dof);
    MatrixXd AZ = A * Z;
    Eigen::JacobiSVD<MatrixXd> svdAZ(AZ, Eigen::ComputeThinU | Eigen::ComputeThinV);
    VectorXd s2 = svdAZ.singularValues();
    double condAZ = s2(0) / s2(s2.size() - 1);
    if (!(condAZ < 1e6)) { R.counter("skipped_illconditioned_AZ"); continue; }
    bool zerocol = false;
    for (long j = 0; j < n; ++j) if (A.col(j).cwiseAbs().maxCoeff() == 0.0) zerocol = true;
    if (zerocol) { R.counter("skipped_zero_column"); continue; }

    auto witness = [&]() {
      J w;
      w.s("family", famname).i("m", m).i("n", n).i("p", p).raw("A", mat_json(A)).vec("b", vv(b)).raw("B", mat_json(B));
      return w;
    };
    { J cur; cur.s("family", famname).i("seed", seed).i("shard", shard).i("case", ic); vfh::set_case(cur.str()); }
    VectorXd x;
    try {
      x = votca::tools::linalg_constrained_qrsolve(A, b, B);
    } catch (const std::exception &e) {
      R.eval(famname);
      R.violation(std::string("qrsolve/") + famname + "/throws", std::string("well-posed problem rejected: ") + e.what(), witness());
      continue;
    }
    R.eval(famname);
    if (x.size() != n || !x.allFinite()) {
      R.violation(std::string("qrsolve/") + famname + "/not-finite", "result has wrong size or non-finite entries", witness().vec("x", vv(x)));
      continue;
    }
    double nA = svdAZ.singularValues()(0) > 0 ? Eigen::JacobiSVD<MatrixXd>(A).singularValues()(0) : 0, nB = sv(0);
    double nx = x.norm(), nb = b.norm();
    // reference solution
    VectorXd xref = Z * svdAZ.solve(b);
    // (1) constraints
    VecL Bx = B.cast<LD>() * x.cast<LD>();
    double cviol = (double)Bx.norm();
    double ctol = 1e-10 * nB * std::max(nx, xref.norm());
    if (!(cviol <= ctol))
      R.violation(std::string("qrsolve/") + famname + "/constraint-violated", "|Bx| > 1e-10 |B||x|",
                  witness().vec("x", vv(x)).d("Bx_norm", cviol).d("tolerance", ctol));
    // (2) projected gradient
    VecL res = A.cast<LD>() * x.cast<LD>() - b.cast<LD>();
    VecL g = Z.cast<LD>().transpose() * (A.cast<LD>().transpose() * res);
    double gn = (double)g.norm();
    double gtol = 1e-9 * nA * (nA * std::max(nx, xref.norm()) + nb);
    if (!(gn <= gtol))
      R.violation(std::string("qrsolve/") + famname + "/gradient-not-orthogonal-to-nullspace", "Z^T A^T (Ax-b) is not ~0",
                  witness().vec("x", vv(x)).vec("x_ref", vv(xref)).d("projected_gradient_norm", gn).d("tolerance", gtol));
    // (3) the minimiser itself (sensitivity cond + cond^2 * relative residual)
    double rr = (double)res.norm() / std::max(nA * std::max(nx, 1e-300), 1e-300);
    // + sensitivity to the null-space basis itself: Z is known to eps*cond(B) only, and an error dZ moves x = Z z by
    //   |z| (|dZ| + |A||dZ| / sigma_min(AZ))  (the KKT conditions above are what the property states; this third check is
    //   a cross-check and must not demand more than the data determine)
    double condB = sv(0) / sv(p - 1);
    double xtol = 1e-11 * (condAZ + condAZ * condAZ * rr) * std::max(xref.norm(), nx) + 1e-13 * nb / s2(s2.size() - 1) +
                  1e-15 * condB * (1.0 + nA / s2(s2.size() - 1)) * std::max(xref.norm(), nx);
    if (!((x - xref).norm() <= xtol))
      R.violation(std::string("qrsolve/") + famname + "/not-the-minimiser", "x differs from Z (AZ)^+ b",
                  witness().vec("x", vv(x)).vec("x_ref", vv(xref)).d("diff", (x - xref).norm()).d("tolerance", xtol));
    // non-trivial: the unconstrained minimiser violates the constraints (the constraints are active)
    {
      VectorXd xu = Eigen::JacobiSVD<MatrixXd>(A, Eigen::ComputeThinU | Eigen::ComputeThinV).solve(b);
      if ((B * xu).norm() > 1e-6 * nB * std::max(xu.norm(), 1e-300)) {
        uint64_t h = vfh::hmix(vfh::hmix(41, (uint64_t)n), (uint64_t)p);
        h = vfh::hdouble(vfh::hdouble(vfh::hdouble(h, A(0, 0)), b(0)), B(0, 0));
        R.nontrivial(h);
      } else R.counter("constraints_inactive");
    }
    R.counter(std::string("cases_") + famname);
    if (R.want_sample() && ic % 37 == 5)
      R.sample(J().s("family", famname).i("m", m).i("n", n).i("p", p).d("Bx_norm", cviol).d("projected_gradient_norm", gn).d("cond_AZ", condAZ).d("x_minus_xref", (x - xref).norm()));
  }
  R.summary();
  return 0;
}
