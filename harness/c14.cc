// C14 monitor: KMC event selection is rate-proportional; Marcus rates obey
// detailed balance; waiting times are exponential (DESIGN.md §5 C14).
// Real code: GNode::AddEvent/InitEscapeRate/MakeHuffTree/findHoppingDestination,
// huffmanTree<T> directly, Rate_Engine::Rate on constructed Segment/QMPair
// objects, and (when kmccalculator.cc links, -DC14_WITH_KMC) the protected
// KMCCalculator::Promotetime / ChooseHoppingDest through a derived class.
//
// Private state (huffman thresholds) is reached in THIS translation unit only,
// through the explicit-instantiation idiom (no macro, nothing changed in /repo).
//
// modes: --mode tree|rebuilt|marcus|lambda_outer|waiting   --seed S --shard k --n N
#include "vfh.h"
#include <cfloat>
#include <votca/tools/constants.h>
#include <votca/tools/random.h>
#include <votca/xtp/gnode.h>
#include <votca/xtp/huffmantree.h>
#include <votca/xtp/qmpair.h>
#include <votca/xtp/rate_engine.h>
#include <votca/xtp/segment.h>
#ifdef C14_WITH_KMC
#include <votca/xtp/kmccalculator.h>
#include <votca/xtp/topology.h>
#endif

using namespace votca::xtp;
using votca::Index;
using vfh::J;
typedef long double LD;
static const double EPS = DBL_EPSILON;

// ------------------------------------------------------------------ private access (harness TU only)
template <class Tag, auto P>
struct Rob {
  friend auto rob_get(Tag) { return P; }
};
struct TagGNodeTree { friend auto rob_get(TagGNodeTree); };
struct TagGLinkHtree { friend auto rob_get(TagGLinkHtree); };
template struct Rob<TagGNodeTree, &GNode::hTree>;
template struct Rob<TagGLinkHtree, &huffmanTree<GLink>::htree>;

// an event type of our own for the direct huffmanTree<T> family
struct Ev {
  double v;
  double getValue() const { return v; }
};
struct TagEvHtree { friend auto rob_get(TagEvHtree); };
template struct Rob<TagEvHtree, &huffmanTree<Ev>::htree>;

template <class NodeVec>
static std::vector<double> thresholds_of(const NodeVec &nodes) {
  std::vector<double> t;
  for (const auto &n : nodes) t.push_back(n.probability);
  return t;
}

// ------------------------------------------------------------------ rate lists
static std::vector<double> gen_rates(vfh::Rng &r, long n, std::string &fam) {
  std::vector<double> v(n);
  int c = (int)r.range(0, 9);
  double scale = r.logu(1e-3, 1e15);  // absolute magnitude (1/s)
  switch (c) {
    case 0: fam = "equal"; for (auto &x : v) x = scale; break;
    case 1: fam = "12_orders"; for (auto &x : v) x = scale * r.logu(1e-12, 1.0); break;
    case 2: fam = "two_scales"; for (auto &x : v) x = scale * (r.coin() ? r.uni(0.5, 1.0) : r.uni(0.5, 1.0) * 1e-9); break;
    case 3: fam = "ascending"; for (long k = 0; k < n; ++k) v[k] = scale * (double)(k + 1); break;
    case 4: fam = "descending_geometric"; for (long k = 0; k < n; ++k) v[k] = scale * std::pow(0.5, (double)(k % 40)); break;
    case 5: fam = "one_dominant"; for (auto &x : v) x = scale * r.uni(1e-12, 1e-10); v[r.range(0, n - 1)] = scale; break;
    case 6: fam = "duplicates"; { double a = scale * r.uni(), b = scale * r.uni(); for (auto &x : v) x = r.coin() ? a : b; } break;
    case 7: fam = "powers_of_two"; for (auto &x : v) x = std::ldexp(1.0, (int)r.range(-20, 20)); break;
    default: fam = "uniform"; for (auto &x : v) x = scale * r.uni(0.01, 1.0); break;
  }
  return v;
}

struct TreeJudge {
  long probes = 0, thresholds = 0;
};

// exact measure of the selection function: 'find' maps p -> event index (or -1 for null / foreign)
template <class Find>
static void judge_tree(vfh::Reporter &R, const std::string &fam, const std::vector<double> &rates, std::vector<double> thr,
                       double escape_rate, bool have_escape, Find find, TreeJudge &tj, const std::string &impl, const std::string &kp = "tree/",
                       const std::string &history = "") {
  long n = (long)rates.size();
  auto wit = [&]() {
    J w;
    w.s("implementation", impl).s("family", fam).vec("rates", rates).vec("thresholds_sorted", thr);
    if (!history.empty()) w.raw("history", history);
    return w;
  };
  std::sort(thr.begin(), thr.end());
  tj.thresholds += (long)thr.size();
  // break points inside (0,1)
  std::vector<double> b{0.0};
  for (double t : thr)
    if (t > 0.0 && t < 1.0 && t != b.back()) b.push_back(t);
  b.push_back(1.0);
  for (double t : thr)
    if (!(t >= -8 * EPS * n && t <= 1.0 + 8 * EPS * n)) {
      R.violation(kp + "threshold-outside-unit-interval", "a node threshold lies outside [0,1]", wit().d("threshold", t));
      return;
    }
  // ---- every p in [0,1] returns an event of this node: 0, 1, every threshold and its neighbours, mid-points
  std::vector<double> pts{0.0, 1.0, DBL_TRUE_MIN, std::nextafter(1.0, 0.0)};
  for (double t : thr) {
    for (double p : {t, std::nextafter(t, -1.0), std::nextafter(t, 2.0)})
      if (p >= 0.0 && p <= 1.0) pts.push_back(p);
  }
  for (size_t k = 0; k + 1 < b.size(); ++k) pts.push_back(b[k] + 0.5 * (b[k + 1] - b[k]));
  for (double p : pts) {
    ++tj.probes;
    long e = find(p);
    if (e < 0 || e >= n) {
      R.violation(kp + "no-event-selected", "findHoppingDestination(p) for p in [0,1] returned null or an event of another node", wit().d("p", p).i("returned_index", e));
      return;
    }
  }
  // ---- exact measure: the selection is constant between consecutive thresholds
  std::vector<LD> measure(n, 0.0L);
  long at_threshold_differs = 0;
  for (size_t k = 0; k + 1 < b.size(); ++k) {
    double lo = b[k], hi = b[k + 1];
    double mid = lo + 0.5 * (hi - lo);
    if (!(mid > lo && mid < hi)) mid = hi;  // 1-ulp interval
    long e = find(mid);
    measure[e] += (LD)hi - (LD)lo;
    // constancy on the open interval (monitor self-check: both ends next to the thresholds select the same event)
    double a1 = std::nextafter(lo, 2.0), a2 = std::nextafter(hi, -1.0);
    if (a1 < hi && a2 > lo && (find(a1) != e || find(a2) != e)) {
      R.violation(kp + "selection-not-piecewise-constant", "the selected event changes between two consecutive thresholds", wit().d("lo", lo).d("hi", hi));
      return;
    }
    if (find(hi) != e) ++at_threshold_differs;  // which side owns the threshold itself is not judged (measure zero)
  }
  R.counter("intervals_with_threshold_owned_by_upper_side", at_threshold_differs);
  LD sum = 0;
  for (double x : rates) sum += (LD)x;
  LD tol_abs = 2.0L * EPS * (LD)(thr.size() + 2);
  for (long i = 0; i < n; ++i) {
    LD want = (LD)rates[i] / sum;
    LD tol = 1e-12L * want + tol_abs;
    if (fabsl(measure[i] - want) > tol) {
      std::vector<double> m(measure.begin(), measure.end());
      R.violation(kp + "measure-not-rate-proportional", "total length of the p-set selecting an event differs from rate/sum(rates)",
                  wit().i("event", i).d("measure", (double)measure[i]).d("expected", (double)want).d("tolerance", (double)tol).vec("measures", m));
      return;
    }
  }
  if (have_escape) {
    if (fabsl((LD)escape_rate - sum) > 4.0L * EPS * (LD)n * sum)
      R.violation(kp + (kp == "tree/" ? "escape-rate-not-sum" : "escape-rate"), "GNode::getEscapeRate() differs from the sum of the event rates", wit().d("escape_rate", escape_rate).d("sum", (double)sum));
  }
  if (R.want_sample() && n >= 3 && n <= 6) {
    std::vector<double> m(measure.begin(), measure.end());
    R.sample(wit().vec("measured_lengths", m).d("sum_rates", (double)sum));
  }
}

static void run_trees(vfh::Reporter &R, vfh::Rng &r, long ntrees) {
  TreeJudge tj;
  Segment seg("seg", 0);
  std::vector<Segment> dsegs;
  for (int k = 0; k < 100; ++k) dsegs.emplace_back("d", k + 1);
  for (long it = 0; it < ntrees; ++it) {
    long n;
    int lc = (int)r.range(0, 9);
    if (lc == 0) n = r.range(1, 4);
    else if (lc == 1) n = r.range(95, 100);
    else n = r.range(1, 100);
    std::string fam;
    std::vector<double> rates = gen_rates(r, n, fam);
    uint64_t h = 31 + (uint64_t)n;
    for (double x : rates) h = vfh::hdouble(h, x);
    bool direct = (it % 4 == 3);
    vfh::set_case(J().s("family", fam).vec("rates", rates).str());
    if (!direct) {
      // ---- through GNode
      std::vector<GNode> dests;
      dests.reserve(n);
      for (long k = 0; k < n; ++k) dests.emplace_back(dsegs[k % 100], QMStateType(QMStateType::Electron), true);
      GNode node(seg, QMStateType(QMStateType::Electron), true);
      for (long k = 0; k < n; ++k) {
        if (k == n - 1 && r.coin(0.1)) node.AddDecayEvent(rates[k]);
        else node.AddEvent(&dests[k], Eigen::Vector3d(1.0 * k, 0, 0), rates[k]);
      }
      node.InitEscapeRate();
      node.MakeHuffTree();
      const auto &tree = node.*rob_get(TagGNodeTree{});
      const auto &hn = tree.*rob_get(TagGLinkHtree{});
      std::vector<double> thr = thresholds_of(hn);
      const GLink *base = node.Events().data();
      auto find = [&](double p) -> long {
        GLink *e = node.findHoppingDestination(p);
        if (!e) return -1;
        long idx = (long)(e - base);
        if (idx < 0 || idx >= n || &node.Events()[idx] != e) return -2;
        return idx;
      };
      R.eval(std::string("tree_gnode_") + (n % 2 ? "odd" : "even"));
      R.counter("family_" + fam);
      judge_tree(R, fam, rates, thr, node.getEscapeRate(), true, find, tj, "GNode");
      size_t want_nodes = (size_t)(n % 2 ? n : n - 1);
      if (hn.size() != want_nodes) R.counter("unexpected_tree_size");
    } else {
      // ---- huffmanTree<T> directly with an event type of our own
      std::vector<Ev> evs(n);
      for (long k = 0; k < n; ++k) evs[k].v = rates[k];
      huffmanTree<Ev> tree;
      tree.setEvents(&evs);
      tree.makeTree();
      const auto &hn = tree.*rob_get(TagEvHtree{});
      std::vector<double> thr = thresholds_of(hn);
      auto find = [&](double p) -> long {
        Ev *e = tree.findHoppingDestination(p);
        if (!e) return -1;
        long idx = (long)(e - evs.data());
        return (idx < 0 || idx >= n) ? -2 : idx;
      };
      R.eval(std::string("tree_direct_") + (n % 2 ? "odd" : "even"));
      R.counter("family_" + fam);
      judge_tree(R, fam, rates, thr, 0, false, find, tj, "huffmanTree<Ev>");
    }
    if (n >= 3) R.nontrivial(h);
  }
  R.counter("thresholds_probed", tj.thresholds);
  R.counter("lookup_evaluations", tj.probes);
  // a tree that was never made must refuse lookups
  {
    R.eval("tree_not_made");
    huffmanTree<Ev> t;
    bool threw = false;
    try { t.findHoppingDestination(0.5); } catch (const std::exception &) { threw = true; }
    if (!threw) R.violation("tree/lookup-before-makeTree", "findHoppingDestination on a tree that was never made did not throw", J());
  }
}

// ------------------------------------------------------------------ rebuilt trees
// History on ONE GNode / huffmanTree object: build -> probe -> add events -> InitEscapeRate -> MakeHuffTree ->
// probe again (1..4 rebuilds). This is what KMCLifetime does: LoadGraph builds every tree, ReadLifetimeFile adds a
// decay event per site and rebuilds. The exact-measure oracle is applied after every (re)build with ALL current events.
static void run_rebuilt(vfh::Reporter &R, vfh::Rng &r, long nhist) {
  TreeJudge tj;
  Segment seg("seg", 0);
  std::vector<Segment> dsegs;
  for (int k = 0; k < 100; ++k) dsegs.emplace_back("d", k + 1);
  for (long it = 0; it < nhist; ++it) {
    long n0 = r.coin(0.2) ? r.range(1, 3) : r.range(1, 60);
    std::string fam;
    std::vector<double> rates = gen_rates(r, n0, fam);
    long rebuilds = r.range(1, 4);
    bool direct = (it % 4 == 3);
    // the additions of every step
    std::vector<std::vector<double>> adds;
    std::vector<std::string> kinds;
    {
      std::vector<double> cur = rates;
      for (long b = 0; b < rebuilds; ++b) {
        double mx = *std::max_element(cur.begin(), cur.end()), mn = *std::min_element(cur.begin(), cur.end());
        std::vector<double> a;
        int c = (int)r.range(0, 5);
        std::string kind;
        if (c == 0) { kind = "one_decay_like_event"; a.push_back(mn * r.uni(0.5, 2.0)); }
        else if (c == 1) { kind = "one_event_comparable"; a.push_back(r.uni(mn, mx)); }
        else if (c == 2) { kind = "several_events"; long k = r.range(2, 6); for (long q = 0; q < k; ++q) a.push_back(r.logu(mn * 0.5, mx * 2.0)); }
        else if (c == 3) { kind = "one_much_larger_event"; a.push_back(mx * r.logu(1e3, 1e9)); }
        else if (c == 4) { kind = "one_much_smaller_event"; a.push_back(mn * r.logu(1e-9, 1e-3)); }
        else { kind = "equal_to_an_existing_event"; a.push_back(cur[r.range(0, (long)cur.size() - 1)]); }
        for (double x : a) cur.push_back(x);
        adds.push_back(a);
        kinds.push_back(kind);
      }
    }
    uint64_t h = 71 + (uint64_t)n0;
    for (double x : rates) h = vfh::hdouble(h, x);
    for (auto &a : adds) for (double x : a) h = vfh::hdouble(h, x);
    auto history = [&](long step) {
      std::string o = "[";
      for (long b = 0; b < step; ++b) o += std::string(b ? "," : "") + J().i("rebuild", b + 1).s("kind", kinds[b]).vec("added_rates", adds[b]).str();
      J j;
      j.i("initial_events", n0).vec("initial_rates", std::vector<double>(rates.begin(), rates.begin() + n0)).raw("rebuilds_so_far", o + "]").i("rebuilds_planned", rebuilds);
      return j.str();
    };
    vfh::set_case(J().s("family", fam).raw("history", history(rebuilds)).str());
    if (!direct) {
      std::vector<GNode> dests;
      dests.reserve(200);
      for (long k = 0; k < 100; ++k) dests.emplace_back(dsegs[k], QMStateType(QMStateType::Electron), true);
      GNode node(seg, QMStateType(QMStateType::Electron), true);
      std::vector<double> cur;
      auto add = [&](double rate, bool decay) {
        if (decay) node.AddDecayEvent(rate);
        else node.AddEvent(&dests[cur.size() % 100], Eigen::Vector3d(1.0 * (double)cur.size(), 0, 0), rate);
        cur.push_back(rate);
      };
      for (long k = 0; k < n0; ++k) add(rates[k], false);
      for (long step = 0; step <= rebuilds; ++step) {
        if (step > 0)
          for (double x : adds[step - 1]) add(x, kinds[step - 1] == "one_decay_like_event" || r.coin(0.3));
        node.InitEscapeRate();
        node.MakeHuffTree();
        const auto &tree = node.*rob_get(TagGNodeTree{});
        const auto &hn = tree.*rob_get(TagGLinkHtree{});
        std::vector<double> thr = thresholds_of(hn);
        long n = (long)cur.size();
        const GLink *base = node.Events().data();
        auto find = [&](double p) -> long {
          GLink *e = node.findHoppingDestination(p);
          if (!e) return -1;
          long idx = (long)(e - base);
          if (idx < 0 || idx >= n || &node.Events()[idx] != e) return -2;
          return idx;
        };
        R.eval(step == 0 ? "tree_rebuilt_gnode_first_build" : "tree_rebuilt_gnode_after_rebuild");
        if (step > 0) R.counter("rebuild_kind_" + kinds[step - 1]);
        judge_tree(R, fam, cur, thr, node.getEscapeRate(), true, find, tj, "GNode (rebuilt)", step == 0 ? "tree/" : "tree-rebuilt/", history(step));
      }
    } else {
      std::vector<Ev> evs;
      huffmanTree<Ev> tree;
      std::vector<double> cur;
      for (long k = 0; k < n0; ++k) { evs.push_back(Ev{rates[k]}); cur.push_back(rates[k]); }
      for (long step = 0; step <= rebuilds; ++step) {
        if (step > 0)
          for (double x : adds[step - 1]) { evs.push_back(Ev{x}); cur.push_back(x); }
        tree.setEvents(&evs);
        tree.makeTree();
        const auto &hn = tree.*rob_get(TagEvHtree{});
        std::vector<double> thr = thresholds_of(hn);
        long n = (long)cur.size();
        auto find = [&](double p) -> long {
          Ev *e = tree.findHoppingDestination(p);
          if (!e) return -1;
          long idx = (long)(e - evs.data());
          return (idx < 0 || idx >= n) ? -2 : idx;
        };
        R.eval(step == 0 ? "tree_rebuilt_direct_first_build" : "tree_rebuilt_direct_after_rebuild");
        if (step > 0) R.counter("rebuild_kind_" + kinds[step - 1]);
        judge_tree(R, fam, cur, thr, 0, false, find, tj, "huffmanTree<Ev> (rebuilt)", step == 0 ? "tree/" : "tree-rebuilt/", history(step));
      }
    }
    R.nontrivial(h);
    R.counter("rebuild_histories");
  }
  R.counter("thresholds_probed", tj.thresholds);
  R.counter("lookup_evaluations", tj.probes);
}

// ------------------------------------------------------------------ Marcus rates
struct MarcusCase {
  int state;  // QMStateType: 0 electron 1 hole 2 singlet 3 triplet
  double T_K, kT;
  Eigen::Vector3d F, Rv;
  double emp1, emp2, uxx1, uxx2;  // site energy = EMpoles + U_xX_nN
  double a1, b1, a2, b2;          // U_nX_nN, U_xN_xX of both segments
  double lambda_outer;
  double J2;
  long id1 = 0, id2 = 1;  // segment ids, in either order (a pair may be created with the higher id first)
};
static std::string mjson(const MarcusCase &c) {
  J j;
  j.i("state", c.state).d("T_K", c.T_K).d("kT_hartree", c.kT).vec("field_hartree_per_bohr", std::vector<double>{c.F.x(), c.F.y(), c.F.z()})
      .vec("R_bohr", std::vector<double>{c.Rv.x(), c.Rv.y(), c.Rv.z()})
      .d("EMpoles1", c.emp1).d("EMpoles2", c.emp2).d("U_xX_nN_1", c.uxx1).d("U_xX_nN_2", c.uxx2)
      .d("U_nX_nN_1", c.a1).d("U_xN_xX_1", c.b1).d("U_nX_nN_2", c.a2).d("U_xN_xX_2", c.b2)
      .d("lambda_outer", c.lambda_outer).d("Jeff2", c.J2).i("segment_id_1", c.id1).i("segment_id_2", c.id2);
  return j.str();
}
// view: 0 = the pair kept (seg1, seg2, R) as handed in; 1 = it holds (seg2, seg1, -R), a consistent mirrored
// description of the same pair (rate12 then belongs to the hop seg2 -> seg1); 2 = anything else
static Rate_Engine::PairRates marcus_rates(const MarcusCase &c, double J2, int *view = nullptr) {
  QMStateType st((QMStateType::statetype)c.state);
  Segment s1("s1", c.id1), s2("s2", c.id2);
  s1.setEMpoles(st, c.emp1); s2.setEMpoles(st, c.emp2);
  s1.setU_xX_nN(c.uxx1, st); s2.setU_xX_nN(c.uxx2, st);
  s1.setU_nX_nN(c.a1, st); s1.setU_xN_xX(c.b1, st);
  s2.setU_nX_nN(c.a2, st); s2.setU_xN_xX(c.b2, st);
  QMPair pair(0, &s1, &s2, c.Rv);
  if (view) {
    const bool same = pair.Seg1() == &s1 && pair.Seg2() == &s2, swapped = pair.Seg1() == &s2 && pair.Seg2() == &s1;
    const Eigen::Vector3d Rp = pair.R();
    if (same && Rp == c.Rv) *view = 0;
    else if (swapped && Rp == Eigen::Vector3d(-c.Rv)) *view = 1;
    else *view = 2;
  }
  pair.setJeff2(J2, st);
  pair.setLambdaO(c.lambda_outer, st);
  Rate_Engine eng(c.kT, c.F);
  return eng.Rate(pair, st);
}

static MarcusCase gen_marcus(vfh::Rng &r, bool outer) {
  using namespace votca::tools::conv;
  MarcusCase c;
  c.state = (int)r.range(0, 3);
  c.T_K = r.coin(0.5) ? r.uni(200, 400) : r.logu(10, 2000);
  c.kT = c.T_K * kB * ev2hrt;
  // field: V/m -> Hartree/bohr (as kmc does: V/m * 1e-9 -> V/nm, * ev2hrt / nm2bohr)
  double fmag = r.coin(0.12) ? 0.0 : r.logu(1e5, 2e9) * 1e-9 * ev2hrt / nm2bohr;
  Eigen::Vector3d dir(r.normal(), r.normal(), r.normal());
  dir.normalize();
  c.F = fmag * dir;
  Eigen::Vector3d d2(r.normal(), r.normal(), r.normal());
  d2.normalize();
  if (r.coin(0.15)) d2 = (r.coin() ? 1.0 : -1.0) * dir;  // hop along / against the field
  c.Rv = d2 * r.uni(0.2, 3.0) * nm2bohr;
  double de = (r.coin(0.1) ? 0.0 : r.normal() * r.logu(0.001, 0.5)) * ev2hrt;
  double base = r.normal() * 2.0 * ev2hrt;
  c.emp1 = base * r.uni(); c.uxx1 = base - c.emp1;
  double e2 = base - de;  // E2 = E1 - de, then split
  c.emp2 = r.normal() * ev2hrt; c.uxx2 = e2 - c.emp2;
  // equal forward/backward reorganisation energy: U_nX_nN(1)+U_xN_xX(2) == U_xN_xX(1)+U_nX_nN(2)
  double lam = r.logu(0.005, 2.0) * ev2hrt;
  if (r.coin(0.5)) {  // same molecule type on both sites
    c.a1 = c.a2 = lam * r.uni(0.05, 0.95);
    c.b1 = c.b2 = lam - c.a1;
  } else {  // different types, balanced
    c.a1 = lam * r.uni(0.05, 0.95); c.b2 = lam - c.a1;
    c.b1 = lam * r.uni(0.05, 0.95); c.a2 = lam - c.b1;
  }
  c.lambda_outer = outer ? r.logu(0.001, 1.0) * ev2hrt : 0.0;
  c.J2 = std::pow(r.logu(1e-7, 1e-1) * ev2hrt, 2);
  // ids: ascending, descending, far apart, adjacent (the wrap pair "last site -> site 0" has the higher id first)
  c.id1 = (long)r.range(0, 40); c.id2 = (long)r.range(0, 40);
  if (c.id1 == c.id2) c.id2 = c.id1 + 1;
  if (r.coin(0.2)) { c.id1 = (long)r.range(1, 2000); c.id2 = 0; }
  return c;
}

static void run_marcus(vfh::Reporter &R, vfh::Rng &r, long n, bool outer) {
  const std::string fam = outer ? "marcus_lambda_outer" : "marcus";
  const std::string kp = outer ? "marcus-outer-sphere-lambda/" : "marcus/";
  for (long it = 0; it < n; ++it) {
    MarcusCase c = gen_marcus(r, outer);
    vfh::set_case(mjson(c));
    LD q = c.state == 0 ? -1.0L : (c.state == 1 ? 1.0L : 0.0L);
    LD E1 = (LD)c.emp1 + (LD)c.uxx1, E2 = (LD)c.emp2 + (LD)c.uxx2;
    LD FR = (LD)c.F.x() * c.Rv.x() + (LD)c.F.y() * c.Rv.y() + (LD)c.F.z() * c.Rv.z();
    // energy change of the hop 1->2 of a charge q in the field F: dE = E2 - E1 - q F.R (R from site 1 to site 2)
    LD dE = E2 - E1 - q * FR;
    LD l12 = (LD)c.a1 + (LD)c.b2 + (LD)c.lambda_outer, l21 = (LD)c.b1 + (LD)c.a2 + (LD)c.lambda_outer;
    LD kT = c.kT;
    LD X12 = (dE + l12) * (dE + l12) / (4 * l12 * kT), X21 = (-dE + l21) * (-dE + l21) / (4 * l21 * kT);
    if (X12 > 600 || X21 > 600) {  // the double result legitimately underflows: not judged
      R.counter("dontcare_rate_underflows");
      continue;
    }
    R.eval(fam);
    Rate_Engine::PairRates k, k2;
    double cfac = r.coin(0.3) ? std::ldexp(1.0, (int)r.range(-8, 8)) : r.logu(1e-3, 1e3);
    try {
      int view = 0;
      k = marcus_rates(c, c.J2, &view);
      k2 = marcus_rates(c, c.J2 * cfac);
      R.counter(c.id1 > c.id2 ? "pairs_created_with_higher_id_first" : "pairs_created_with_lower_id_first");
      if (view == 2) {
        R.violation(kp + "pair-geometry-inconsistent", "QMPair(seg1, seg2, R) holds neither (seg1, seg2, R) nor the mirrored (seg2, seg1, -R): R no longer points from its first to its second segment", J().raw("case", mjson(c)));
        continue;
      }
      if (view == 1) { std::swap(k.rate12, k.rate21); std::swap(k2.rate12, k2.rate21); R.counter("pairs_held_mirrored"); }
    } catch (const std::exception &ex) {
      R.violation(kp + "throws", "Rate_Engine::Rate threw for positive reorganisation energies", J().raw("case", mjson(c)).s("exception", ex.what()));
      continue;
    }
    auto W = [&]() { J w; w.raw("case", mjson(c)).d("rate12", k.rate12).d("rate21", k.rate21); return w; };
    if (!(k.rate12 > 0 && k.rate21 > 0 && std::isfinite(k.rate12) && std::isfinite(k.rate21))) {
      R.violation(kp + "rate-not-positive", "a Marcus rate is not positive and finite", W());
      continue;
    }
    // k proportional to J^2 (the product c.J2*cfac is itself rounded once)
    {
      double jr = (c.J2 * cfac) / c.J2;
      if (!vfh::close(k2.rate12 / k.rate12, jr, 0, 8 * EPS) || !vfh::close(k2.rate21 / k.rate21, jr, 0, 8 * EPS))
        R.violation(kp + "not-linear-in-J2", "rates do not scale linearly with the squared coupling", W().d("factor", jr).d("rate12_scaled", k2.rate12).d("rate21_scaled", k2.rate21));
    }
    // detailed balance (physical convention, DESIGN §5 C14): k12/k21 = exp(-dE/kT)
    {
      LD got = logl((LD)k.rate12) - logl((LD)k.rate21);
      LD want = -dE / kT;
      // rounding of the inputs of dG = (EMpoles1+U1) - (EMpoles2+U2) + qF.R in double enters as d(dG)/kT; the two
      // exponents are evaluated independently (relative rounding ~ eps each, scaled by their size)
      LD mag = fabsl((LD)c.emp1) + fabsl((LD)c.uxx1) + fabsl((LD)c.emp2) + fabsl((LD)c.uxx2) + fabsl(FR);
      LD tol = 1e-12L * (1 + X12 + X21 + fabsl(want)) + 8.0L * EPS * mag / kT;
      if (fabsl(got - want) > tol) {
        std::string key = kp + "detailed-balance";
        R.violation(key, "ln(k12/k21) differs from -(E2-E1-qF.R)/kT", W().d("ln_ratio", (double)got).d("expected", (double)want).d("tolerance", (double)tol).d("qFR_over_kT", (double)(q * FR / kT)));
      }
      if (X12 > 100 || X21 > 100) R.counter("cases_with_exponent_above_100");
    }
    if (fabsl(q * FR / kT) > 1e-3 && fabsl(E2 - E1) / kT > 1e-3) {
      R.nontrivial(vfh::hdouble(vfh::hdouble(vfh::hdouble(vfh::hdouble(41 + c.state, c.kT), c.emp2), c.F.x()), c.J2));
      R.counter("cases_with_field_term");
    } else if (q == 0) {
      R.nontrivial(vfh::hdouble(vfh::hdouble(vfh::hdouble(43 + c.state, c.kT), c.emp2), c.J2));
      R.counter("exciton_cases");
    }
    if (R.want_sample() && it % 211 == 7) R.sample(W().d("ln_k12_over_k21", (double)(logl((LD)k.rate12) - logl((LD)k.rate21))).d("minus_dE_over_kT", (double)(-dE / kT)));
  }
  // a reorganisation energy of (almost) zero is reported as an error, not as a rate
  if (!outer) {
    R.eval("marcus_zero_reorg");
    MarcusCase c = gen_marcus(r, false);
    c.a1 = c.a2 = c.b1 = c.b2 = 0;
    bool threw = false;
    try { marcus_rates(c, c.J2); } catch (const std::exception &) { threw = true; }
    R.counter(threw ? "zero_reorg_throws" : "zero_reorg_no_throw");
  }
}

// ------------------------------------------------------------------ waiting time
#ifdef C14_WITH_KMC
namespace votca { namespace xtp {
// QMCalculator's two out-of-line members live in qmcalculator.cc, which needs libint2
// (not in the image); they are not under observation here.
bool QMCalculator::EvaluateFrame(Topology &top) { return Evaluate(top); }
void QMCalculator::Initialize(const tools::Property &opt) { ParseOptions(opt); }
}}
struct KmcProbe : public KMCCalculator {
  std::string Identify() const override { return "c14probe"; }
  bool WriteToStateFile() const override { return false; }
  void ParseSpecificOptions(const votca::tools::Property &) override {}
  void RunVSSM() override {}
  bool Evaluate(Topology &) override { return true; }
  void seed(Index s) { RandomVariable_.init(s); }
  double promote(double k) { return Promotetime(k); }
  const GLink &choose(const GNode &n) { return ChooseHoppingDest(n); }
};

static void run_waiting(vfh::Reporter &R, vfh::Rng &r, long n) {
  const long per = 200;
  // (b) distribution: Kolmogorov-Smirnov against Exp(k), FIXED seeds (no flakiness), p > 1e-6
  const long N = 20000;
  for (Index seed = 1; seed <= 6; ++seed) {
    double k = std::pow(10.0, (double)(3 * seed - 6));
    KmcProbe p;
    p.seed(seed * 7919);
    std::vector<double> x(N);
    for (auto &v : x) v = p.promote(k);
    std::sort(x.begin(), x.end());
    double D = 0, mean = 0;
    for (long i = 0; i < N; ++i) {
      double F = -std::expm1(-k * x[i]);
      D = std::max(D, std::max(std::fabs(F - (double)i / N), std::fabs((double)(i + 1) / N - F)));
      mean += x[i];
    }
    mean /= N;
    double crit = std::sqrt(-std::log(1e-6 / 2) / (2.0 * N));
    R.eval("waiting_time_ks");
    R.sample(J().s("family", "waiting_time_ks").i("random_seed", seed * 7919).d("k", k).i("samples", N).d("D", D).d("critical_D", crit).d("mean_times_k", mean * k));
    if (D > crit) R.violation("waiting/not-exponential", "Kolmogorov-Smirnov: waiting times are not Exp(k) distributed (p < 1e-6)", J().i("random_seed", seed * 7919).d("k", k).i("samples", N).d("D", D).d("critical_D", crit).d("mean_times_k", mean * k));
  }
  // (a) exact mirror: the same seeded tools::Random sequence gives u; dt must be -ln(1-u)/k
  for (long it = 0; it < n; ++it) {
    Index seed = (Index)r.range(0, 2000000000L);
    double k = r.logu(1e-3, 1e18);
    KmcProbe p;
    p.seed(seed);
    votca::tools::Random mirror;
    mirror.init(seed);
    R.eval("waiting_time_mirror");
    for (long j = 0; j < per; ++j) {
      double dt = p.promote(k);
      double u = mirror.rand_uniform();
      double ru = 1 - u;  // the uniform variate in (0,1] the code works with (1-u is rounded to double there, too)
      LD want = -logl((LD)ru) / (LD)k;
      bool ok = (dt >= 0) && std::isfinite(dt) && fabsl((LD)dt - want) <= 8.0L * EPS * fabsl(want) + (LD)DBL_TRUE_MIN;
      if (!ok) {
        R.violation("waiting/not-minus-log-u-over-k", "Promotetime(k) differs from -ln(1-u)/k for the mirrored uniform number", J().i("random_seed", seed).i("draw", j).d("k", k).d("u", u).d("got", dt).d("expected", (double)want));
        break;
      }
    }
    R.nontrivial(vfh::hdouble(53 + (uint64_t)seed, k));
    if (R.want_sample() && it % 50 == 3) R.sample(J().s("family", "waiting_time_mirror").i("random_seed", seed).d("k", k).i("draws", per));
  }
  // (c) ChooseHoppingDest draws u = 1 - rand in (0,1] and returns the tree's answer for it
  {
    Segment seg("s", 0), d("d", 1);
    GNode dest(d, QMStateType(QMStateType::Hole), true);
    GNode node(seg, QMStateType(QMStateType::Hole), true);
    std::vector<double> rates{1.0, 2.0, 3.0, 4.0, 10.0};
    for (size_t k = 0; k < rates.size(); ++k) node.AddEvent(&dest, Eigen::Vector3d((double)k, 0, 0), rates[k]);
    node.InitEscapeRate();
    node.MakeHuffTree();
    KmcProbe p;
    p.seed(12345);
    votca::tools::Random mirror;
    mirror.init(12345);
    for (int j = 0; j < 2000; ++j) {
      R.eval("choose_hopping_dest");
      const GLink &g = p.choose(node);
      double u = 1 - mirror.rand_uniform();
      if (&g != node.findHoppingDestination(u)) {
        R.violation("waiting/choose-dest-not-tree-lookup", "ChooseHoppingDest does not return findHoppingDestination(1-u)", J().i("draw", j).d("u", u));
        break;
      }
    }
  }
}
#endif

int main(int argc, char **argv) {
  vfh::Args A(argc, argv);
  long seed = A.num("seed", 1), shard = A.num("shard", 0), n = A.num("n", 100);
  std::string mode = A.str("mode", "tree");
  vfh::Reporter R;
  vfh::Rng rng((uint64_t)seed * 7919 + (uint64_t)shard * 104729 + vfh::hstr(3, mode) % 1000003);
  if (mode == "tree") run_trees(R, rng, n);
  else if (mode == "rebuilt") run_rebuilt(R, rng, n);
  else if (mode == "marcus") run_marcus(R, rng, n, false);
  else if (mode == "lambda_outer") run_marcus(R, rng, n, true);
  else if (mode == "waiting") {
#ifdef C14_WITH_KMC
    run_waiting(R, rng, n);
#else
    R.counter("waiting_time_clause_not_observed_kmccalculator_not_linked");
#endif
  }
  R.summary();
  return 0;
}
