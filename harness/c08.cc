// C08 monitor: trajectory / topology / table / matrix files survive a
// write -> read round trip (DESIGN.md §5 C08).
//
// Real code: TrjWriterFactory / TrjReaderFactory / TopReaderFactory plugins
// (gro, xyz, pdb, dump, dlph, dlpc, xml), tools::Table Save/Load,
// imcio_write/read_matrix, imcio_write/read_index, imcio_write_dS.
// Oracle: the original in-memory data, compared within half a unit of the
// format's last printed digit (in VOTCA units) plus a few ulp.
//
// Every format x aspect has its own structural violation key
// (<format>/<aspect>), and every judged aspect is counted
// ("J:<format>/<aspect>", "V:<format>/<aspect>") so that the python side can
// assemble the format matrix.
//
//   c08 --family gro|xyz|pdb|dump|xml|table|imc|atomcount|dumpread|readers|reuse
//       --seed S --shard k
//       --n N --dir D
//   c08 --family dlpoly --seed S --case k --dir D     (ONE case per process:
//       the DL_POLY writer keeps process-global static state)
#include "vfh.h"
#include <fcntl.h>
#include <spawn.h>
#include <fstream>
#include <sys/stat.h>
#include <sys/wait.h>
#include <votca/csg/imcio.h>
#include <votca/csg/interaction.h>
#include <votca/csg/molecule.h>
#include <votca/csg/topology.h>
#include <votca/csg/topologyreader.h>
#include <votca/csg/trajectoryreader.h>
#include <votca/csg/trajectorywriter.h>
#include <votca/tools/rangeparser.h>
#include <votca/tools/table.h>

using namespace votca::csg;
using votca::Index;
using vfh::J;
typedef Eigen::Vector3d V3;
typedef Eigen::Matrix3d M3;
static const double EPS = 2.220446049250313e-16;

// VOTCA's readers print banners / debug lines to std::cout (which is the JSON
// channel of this program) and std::cerr: silence both while library code runs.
struct Quiet {
  std::streambuf *oc, *oe;
  std::ostringstream sink;
  Quiet() { oc = std::cout.rdbuf(sink.rdbuf()); oe = std::cerr.rdbuf(sink.rdbuf()); }
  ~Quiet() { std::cout.rdbuf(oc); std::cerr.rdbuf(oe); }
};

static vfh::Reporter R;
static std::string g_dir = ".";
static bool g_minimal = false;  // generate a small case (first witnesses are minimal)
static std::set<std::string> g_case_keys;  // keys already reported for the current case
static void new_case() { g_case_keys.clear(); }
// object-reuse scenarios ("writer-reuse", "append", "reader-reuse"): the keys
// and counters of the shared judging code get the scenario as a path element
static std::string g_scenario;

// one judged aspect of one format
static bool judge(const std::string &fmt0, const std::string &aspect, bool ok, const std::string &key0,
                  const std::string &what, const J &w) {
  std::string fmt = fmt0, key = key0;
  if (!g_scenario.empty()) {
    fmt += "[" + g_scenario + "]";
    size_t sl = key.find('/');
    if (sl != std::string::npos) key = key.substr(0, sl) + "/" + g_scenario + key.substr(sl);
  }
  R.counter("J:" + fmt + "/" + aspect);
  if (!ok) {
    R.counter("V:" + fmt + "/" + aspect);
    if (g_case_keys.insert(key).second) R.violation(key, what, w);  // one witness per key and case
    else ++R.violations;
  }
  return ok;
}

static std::string slurp(const std::string &f, size_t maxb = 6000) {
  std::ifstream in(f);
  std::stringstream ss;
  ss << in.rdbuf();
  std::string s = ss.str();
  if (s.size() > maxb) s = s.substr(0, maxb) + "\n...[truncated]";
  return s;
}

// ------------------------------------------------------------------ cases
struct FrameD {
  M3 box;
  std::vector<V3> pos, vel, frc;
  long step;
  double time;
  int kind = -1, hv = -1, hf = -1;  // per-frame box kind / velocity / force presence (-1: as the case says)
};
struct CaseD;
static int fkind(const CaseD &c, const FrameD &F);
static bool fvel(const CaseD &c, const FrameD &F);
static bool ffrc(const CaseD &c, const FrameD &F);
struct CaseD {
  std::string fmt;
  int n = 0;
  std::vector<std::string> name, type, resname;  // resname per residue
  std::vector<int> resnr;
  std::vector<double> mass, q;
  bool vel = false, frc = false;
  int boxkind = 1;  // 0 open 1 ortho 2 triclinic
  std::vector<FrameD> fr;
  std::string tag;  // sub-family marker appended to the reread key
  double dt = 0;
};

static int fkind(const CaseD &c, const FrameD &F) { return F.kind >= 0 ? F.kind : c.boxkind; }
static bool fvel(const CaseD &c, const FrameD &F) { return F.hv >= 0 ? F.hv != 0 : c.vel; }
static bool ffrc(const CaseD &c, const FrameD &F) { return F.hf >= 0 ? F.hf != 0 : c.frc; }

struct Limits {            // nm, VOTCA units: what fits the format's field
  double pos_hi, pos_lo;   // width (leaving a separating blank in the
  double vel_hi, vel_lo;   // whitespace-tokenised formats)
  double frc_hi;
  double box_hi;
  int name_w, res_w;
};
static Limits limits(const std::string &f) {
  // gro: fixed columns for the atoms; the box line is "free format, space
  // separated reals" -> every %10.5f value must leave a blank (|v| < 1000,
  // off-diagonals > -100, i.e. edges < 200)
  if (f == "gro") return {9000, -900, 900, -90, 0, 190, 7, 7};
  if (f == "xyz") return {90, -9.5, 0, 0, 0, 50, 5, 5};
  if (f == "pdb") return {900, -90, 0, 0, 0, 900, 6, 5};
  return {1e4, -1e4, 1e3, -1e3, 1e5, 900, 8, 8};  // dump, dlpoly: free format
}

static std::string rname(vfh::Rng &r, int maxlen) {
  static const char *A = "ABCDEFGHIJKLMNOPQRSTUVWXYZ";
  static const char *B = "ABCDEFGHIJKLMNOPQRSTUVWXYZ0123456789";
  int len = (int)r.range(1, maxlen);
  std::string s(1, A[r.range(0, 25)]);
  for (int i = 1; i < len; ++i) s += B[r.range(0, 35)];
  return s;
}

static double rcoord(vfh::Rng &r, double L, double hi, double lo, double unit) {
  int c = (int)r.range(0, 9);
  double v;
  if (c <= 2) v = r.uni(0, L);                       // inside the cell
  else if (c <= 4) v = r.uni(-3 * L, 3 * L);          // a few images away
  else if (c == 5) v = r.uni(lo, hi);                 // anywhere in the field width
  else if (c == 6) v = r.uni(-1, 1) * 1e-3;           // tiny
  else if (c == 7) v = (double)r.range(-2000, 2000) * unit;        // exactly printable
  else if (c == 8) v = ((double)r.range(-2000, 2000) + 0.5) * unit;  // half-way cases
  else v = r.coin() ? hi : lo;                        // the edge of the field width
  if (v > hi) v = hi;
  if (v < lo) v = lo;
  return v;
}

// Triclinic boxes (GROMACS-reduced, upper triangular in VOTCA's column form):
// tilts b_x = m(0,1), c_x = m(0,2), c_y = m(1,2). Sparse patterns matter: a
// writer that decides "rectangular?" from the wrong elements loses a box whose
// only tilt is e.g. c_y. The first triclinic boxes of every process enumerate
// the 7 non-empty zero/non-zero patterns x 4 magnitude/sign variants; after
// that each tilt is zero with probability 1/2 (never all three).
static long g_tilt_seq = 0;
static std::string tilt_pattern(const M3 &m) {
  return std::string("b_x") + (m(0, 1) != 0 ? "!=0" : "=0") + " c_x" + (m(0, 2) != 0 ? "!=0" : "=0") + " c_y" + (m(1, 2) != 0 ? "!=0" : "=0");
}
static M3 rbox(vfh::Rng &r, int kind, double hi) {
  M3 m = M3::Zero();
  if (kind == 0) return m;
  double ax = r.logu(0.5, 50), by = r.logu(0.5, 50), cz = r.logu(0.5, 50);
  if (r.coin(0.1)) { ax = r.uni(0.5 * hi, hi); }
  m(0, 0) = ax; m(1, 1) = by; m(2, 2) = cz;
  if (kind == 2) {
    long seq = g_tilt_seq++;
    int pat, variant = -1;
    if (seq < 28) { pat = 1 + (int)(seq % 7); variant = (int)(seq / 7); }
    else { pat = (r.coin() ? 1 : 0) | (r.coin() ? 2 : 0) | (r.coin() ? 4 : 0); if (pat == 0) pat = 1 + (int)r.range(0, 6); }
    auto tilt = [&](double lim) {
      int c = variant >= 0 ? 100 + variant : (int)r.range(0, 9);
      double v;
      if (c == 0) v = 0.5 * lim;                                   // exactly at the reduction boundary
      else if (c == 1) v = -0.5 * lim;
      else if (c == 2 || c == 3 || c == 103) v = (r.coin() ? 1 : -1) * r.logu(1e-6, 1e-2) * lim;  // weak tilt
      else if (c == 100) v = r.uni(0.05, 0.5) * lim;             // all positive
      else if (c == 101) v = -r.uni(0.05, 0.5) * lim;            // all negative
      else if (c == 102) v = (r.coin() ? 0.5 : -0.5) * lim;      // boundary values
      else v = r.uni(-0.5, 0.5) * lim;
      return v == 0 ? 0.25 * lim : v;
    };
    if (pat & 1) m(0, 1) = tilt(ax);
    if (pat & 2) m(0, 2) = tilt(ax);
    if (pat & 4) m(1, 2) = tilt(by);
  }
  return m;
}

// minimal >= 0: a small case (1-2 beads, 1-2 frames) that cycles through the
// box kinds and velocity/force flags, so that the first witness kept per key
// is a minimal one
static CaseD gen_case(vfh::Rng &r, const std::string &fmt, int maxbeads, int maxframes, int minimal = -1) {
  CaseD c;
  c.fmt = fmt;
  Limits L = limits(fmt);
  int cls = (int)r.range(0, 9);
  c.n = cls == 0 ? 1 : (cls <= 6 ? (int)r.range(2, 30) : (int)r.range(31, maxbeads));
  int nfr = (int)r.range(1, maxframes);
  c.vel = r.coin(0.5);
  c.frc = r.coin(0.4);
  int bk = (int)r.range(0, 9);
  c.boxkind = bk == 0 ? 0 : (bk <= 4 ? 1 : 2);
  if (minimal >= 0) {
    c.n = 1 + minimal % 2;
    nfr = std::min(maxframes, 1 + (minimal / 2) % 2);
    c.boxkind = 2 - (minimal / 4) % 3;
    c.vel = (minimal / 12) % 2 == 0;
    c.frc = (minimal / 12) % 2 == 0;
  }
  // residues / names / types
  std::vector<std::string> tpool;
  int ntypes = (int)r.range(1, 4);
  for (int i = 0; i < ntypes; ++i) tpool.push_back("T" + rname(r, 4));
  int res = 0;
  c.resname.push_back(rname(r, L.res_w));
  for (int i = 0; i < c.n; ++i) {
    if (i && r.coin(0.3)) { ++res; c.resname.push_back(rname(r, L.res_w)); }
    c.resnr.push_back(res);
    c.name.push_back(rname(r, L.name_w));
    c.type.push_back(r.pick(tpool));
    c.mass.push_back(r.uni(1, 200));
    c.q.push_back(r.coin() ? 0.0 : r.uni(-1, 1));
  }
  double punit = fmt == "gro" ? 1e-3 : fmt == "xyz" ? 1e-6 : fmt == "pdb" ? 1e-4 : 1e-7;
  long step = r.coin(0.2) ? 0 : r.range(1, 100000);
  // MD time step: usually a short decimal; sometimes a value with >= 9
  // significant digits (sub-family "unrounded-dt", matters for DL_POLY HISTORY)
  static const double nice[] = {0.001, 0.002, 0.0005, 0.004, 0.01, 0.02, 0.005, 1.0};
  if (fmt == "xyz" && minimal < 0 && r.coin(0.15)) {
    // %10.5f fields that use their full width: x <= -100 A or >= 1000 A
    c.tag = "wide-coordinates";
    L.pos_hi = 900; L.pos_lo = -99;
  }
  bool awkward = fmt != "xyz" && (minimal < 0 ? r.coin(0.25) : minimal % 5 == 3);
  double dt = awkward ? r.logu(1e-3, 1.0) : nice[r.range(0, 7)];
  if (awkward) c.tag = "unrounded-dt";
  c.dt = dt;
  // frames of one sequence may differ: box type (gro: the only format here
  // whose file can express orthorhombic -> triclinic -> orthorhombic) and
  // presence of velocities / forces (gro, dump: per-frame columns)
  bool mixbox = fmt == "gro" && minimal < 0 && nfr > 1 && r.coin(0.25);
  bool mixvf = (fmt == "gro" || fmt == "dump") && minimal < 0 && nfr > 1 && r.coin(0.2);
  for (int f = 0; f < nfr; ++f) {
    FrameD F;
    if (mixbox) { F.kind = (f % 2 == 0) ? 1 : 2; if (r.coin(0.15)) F.kind = 0; c.boxkind = 2; }
    if (mixvf) { F.hv = r.coin() ? 1 : 0; F.hf = r.coin() ? 1 : 0; }
    int fk = F.kind >= 0 ? F.kind : c.boxkind;
    F.box = rbox(r, fk, L.box_hi);
    double Lb = fk ? F.box(0, 0) : 5.0;
    F.step = step;
    F.time = (double)step * dt;
    step += r.range(1, 5000);
    double vs = r.logu(0.01, 50), fs = r.logu(0.1, 1e4);
    for (int i = 0; i < c.n; ++i) {
      F.pos.push_back(V3(rcoord(r, Lb, L.pos_hi, L.pos_lo, punit), rcoord(r, Lb, L.pos_hi, L.pos_lo, punit),
                         rcoord(r, Lb, L.pos_hi, L.pos_lo, punit)));
      auto cl = [](double v, double hi, double lo) { return hi == 0 && lo == 0 ? v : std::max(lo, std::min(hi, v)); };
      F.vel.push_back(V3(cl(vs * r.normal(), L.vel_hi, L.vel_lo), cl(vs * r.normal(), L.vel_hi, L.vel_lo),
                         cl(vs * r.normal(), L.vel_hi, L.vel_lo)));
      F.frc.push_back(V3(fs * r.normal(), fs * r.normal(), fs * r.normal()));
    }
    if (c.tag == "wide-coordinates") F.pos[0] = V3(-r.uni(10.5, 99), r.uni(0, 5), -r.uni(10.5, 99));
    c.fr.push_back(F);
  }
  return c;
}

static std::vector<double> flat(const std::vector<V3> &v) {
  std::vector<double> o;
  for (auto &a : v) { o.push_back(a.x()); o.push_back(a.y()); o.push_back(a.z()); }
  return o;
}
static std::vector<double> flat(const M3 &m) {
  std::vector<double> o;
  for (int i = 0; i < 3; ++i) for (int j = 0; j < 3; ++j) o.push_back(m(i, j));
  return o;
}
static std::string jstrs(const std::vector<std::string> &v) {
  std::string s = "[";
  for (size_t i = 0; i < v.size(); ++i) s += (i ? ",\"" : "\"") + vfh::jesc(v[i]) + "\"";
  return s + "]";
}
// complete failing input: everything needed to rebuild the topology + frames
static J case_json(const CaseD &c, size_t maxframes = 6) {
  J j;
  j.s("format", c.fmt).i("nbeads", c.n).b("has_vel", c.vel).b("has_force", c.frc).i("boxkind", c.boxkind).d("md_timestep", c.dt);
  j.raw("names", jstrs(c.name)).raw("types", jstrs(c.type)).raw("resnames", jstrs(c.resname));
  j.vec("resnr", c.resnr);
  std::string fr = "[";
  for (size_t f = 0; f < c.fr.size() && f < maxframes; ++f) {
    J a;
    a.i("step", c.fr[f].step).d("time", c.fr[f].time).i("boxkind", fkind(c, c.fr[f])).vec("box_rowmajor", flat(c.fr[f].box)).vec("pos", flat(c.fr[f].pos));
    if (fvel(c, c.fr[f])) a.vec("vel", flat(c.fr[f].vel));
    if (ffrc(c, c.fr[f])) a.vec("force", flat(c.fr[f].frc));
    fr += (f ? "," : "") + a.str();
  }
  j.raw("frames", fr + "]");
  return j;
}
static uint64_t case_hash(const CaseD &c) {
  uint64_t h = vfh::hstr(7, c.fmt);
  h = vfh::hmix(h, c.n); h = vfh::hmix(h, c.fr.size()); h = vfh::hmix(h, c.vel * 2 + c.frc);
  for (auto &F : c.fr) { h = vfh::hdouble(h, F.pos[0].x()); h = vfh::hdouble(h, F.box(0, 1)); h = vfh::hdouble(h, F.box(2, 2)); }
  return h;
}

// build the in-memory topology of a case (no coordinates yet)
static void build_top(Topology &top, const CaseD &c, int nbeads = -1) {
  if (nbeads < 0) nbeads = c.n;
  for (auto &rn : c.resname) top.CreateResidue(rn);
  for (int i = 0; i < nbeads; ++i) {
    int k = i % c.n;
    if (!top.BeadTypeExist(c.type[k])) top.RegisterBeadType(c.type[k]);
    top.CreateBead(Bead::spherical, c.name[k], c.type[k], c.resnr[k], c.mass[k], c.q[k]);
  }
}
static void load_frame(Topology &top, const CaseD &c, const FrameD &F, int nbeads = -1) {
  if (nbeads < 0) nbeads = c.n;
  int fk = fkind(c, F);
  top.setBox(F.box, fk == 0 ? BoundaryCondition::typeOpen : fk == 1 ? BoundaryCondition::typeOrthorhombic : BoundaryCondition::typeTriclinic);
  top.setStep(F.step);
  top.setTime(F.time);
  top.SetHasVel(fvel(c, F));
  top.SetHasForce(ffrc(c, F));
  for (int i = 0; i < nbeads; ++i) {
    Bead *b = top.getBead(i);
    b->setPos(F.pos[i % c.n]);
    if (fvel(c, F)) b->setVel(F.vel[i % c.n]);
    if (ffrc(c, F)) b->setF(F.frc[i % c.n]);
  }
}
// write the frames [f0,f1) of a case through the library writer
static void write_case(const std::string &file, const CaseD &c, bool append = false, int nbeads = -1, size_t f0 = 0,
                       size_t f1 = 1000) {
  Quiet q;
  Topology src;
  build_top(src, c, nbeads);
  std::unique_ptr<TrajectoryWriter> w = TrjWriterFactory().Create(file);
  w->Open(file, append);
  for (size_t f = f0; f < c.fr.size() && f < f1; ++f) {
    load_frame(src, c, c.fr[f], nbeads);
    w->Write(&src);
  }
  w->Close();
}

struct Snap {
  M3 box;
  std::vector<V3> pos, vel, frc;
  std::vector<char> hv, hf;
  long step;
  int nbeads;
  int boxtype;
};
static Snap snap(Topology &t) {
  Snap s;
  s.box = t.getBox();
  s.step = t.getStep();
  s.nbeads = (int)t.BeadCount();
  s.boxtype = (int)t.getBoxType();
  for (Index i = 0; i < t.BeadCount(); ++i) {
    Bead *b = t.getBead(i);
    s.pos.push_back(b->HasPos() ? b->getPos() : V3(NAN, NAN, NAN));
    s.hv.push_back(b->HasVel());
    s.hf.push_back(b->HasF());
    s.vel.push_back(b->HasVel() ? b->getVel() : V3(NAN, NAN, NAN));
    s.frc.push_back(b->HasF() ? b->getF() : V3(NAN, NAN, NAN));
  }
  return s;
}
// drive a trajectory reader the way CsgApplication::Run does
static std::vector<Snap> read_traj(const std::string &file, Topology &dst) {
  Quiet q;
  std::vector<Snap> out;
  std::unique_ptr<TrajectoryReader> rd = TrjReaderFactory().Create(file);
  rd->Open(file);
  rd->FirstFrame(dst);  // return value ignored by CsgApplication as well
  out.push_back(snap(dst));
  while (out.size() < 50 && rd->NextFrame(dst)) out.push_back(snap(dst));
  rd->Close();
  return out;
}

// ------------------------------------------------------------ tolerances
struct Tol {
  // absolute half-units of the last printed digit, in VOTCA units (nm, nm/ps,
  // kJ/mol/nm); sig > 0: general format with that many significant digits of
  // the value*scale
  double pos_abs, vel_abs, frc_abs, box_abs;
  int sig;
  double scale;
};
static Tol tol_of(const std::string &f, bool config) {
  if (f == "gro") return {0.5e-3, 0.5e-4, 0, 0.5e-5, 0, 1};
  if (f == "xyz") return {0.5e-6, 0, 0, 0, 0, 1};
  if (f == "pdb") return {0.5e-4, 0, 0, 0.5e-4, 0, 1};
  if (f == "dump") return {0.5e-7, 0.5e-7, 0.5e-6 * 41.868, 0.5e-7, 0, 1};
  // dlpoly: 12 significant digits of 10*x; CONFIG box: fixed, 10 decimals in A
  return {0, 0, 0, config ? 0.5e-11 : 0.0, 12, 10.0};
}
static double tol1(double expect, double abs_half, int sig, double scale) {
  double t = abs_half;
  if (sig > 0 && abs_half == 0) {
    double v = std::fabs(expect * scale);
    if (v > 0 && std::isfinite(v)) {
      int e = (int)std::floor(std::log10(v));
      t = 0.5 * std::pow(10.0, e - sig + 1) / scale * 1.0000001;
      // a value that rounds up to the next decade is printed with a unit ten
      // times larger only above the decade: error still <= half the old unit
    }
  }
  return t + 16 * EPS * std::fabs(expect) + 1e-300;
}

struct Cmp {
  double worst = 0;  // max |got-exp|/tol
  int wi = -1, wk = -1;
  double wgot = 0, wexp = 0, wtol = 0;
  bool units = false;
  double factor = 1;
  bool bad() const { return worst > 1.0; }
};
static Cmp cmp_vecs(const std::vector<V3> &got, const std::vector<V3> &exp, double abs_half, int sig, double scale) {
  Cmp c;
  std::vector<double> ratios;
  for (size_t i = 0; i < exp.size() && i < got.size(); ++i)
    for (int k = 0; k < 3; ++k) {
      double e = exp[i][k], g = got[i][k], t = tol1(e, abs_half, sig, scale);
      double d = std::isnan(g) ? 1e300 : std::fabs(g - e) / t;
      if (d > c.worst) { c.worst = d; c.wi = (int)i; c.wk = k; c.wgot = g; c.wexp = e; c.wtol = t; }
      if (std::fabs(e) > 1e4 * t && std::isfinite(g)) ratios.push_back(g / e);
    }
  if (c.bad()) {
    // a constant factor? least-squares estimate got = f * expected, then every
    // component must agree with f * expected within the printed resolution
    (void)ratios;
    double sge = 0, see = 0;
    for (size_t i = 0; i < exp.size() && i < got.size(); ++i)
      for (int k = 0; k < 3; ++k)
        if (std::isfinite(got[i][k])) { sge += got[i][k] * exp[i][k]; see += exp[i][k] * exp[i][k]; }
    if (see > 0) {
      double f = sge / see;
      bool uniform = std::fabs(f - 1) > 1e-5 && std::fabs(f) > 1e-12;
      for (size_t i = 0; uniform && i < exp.size() && i < got.size(); ++i)
        for (int k = 0; k < 3; ++k) {
          double e = exp[i][k], t = tol1(e, abs_half, sig, scale) * std::max(1.0, std::fabs(f));
          if (!(std::fabs(got[i][k] - f * e) <= 2 * t + 1e-4 * std::fabs(f * e))) uniform = false;
        }
      // the factor must also explain the mismatch (not just fit noise)
      if (uniform && std::fabs(f - 1) * std::fabs(c.wexp) > 0.5 * c.wtol) { c.units = true; c.factor = f; }
    }
  }
  return c;
}
static void add_cmp(J &w, const Cmp &c, const char *what) {
  w.s("quantity", what).i("bead", c.wi).i("component", c.wk).d("got", c.wgot).d("expected", c.wexp).d("tolerance", c.wtol);
  if (c.units) w.d("uniform_factor_got_over_expected", c.factor);
}

// ---------------------------------------------------- independent parsers
// (file-level view for the two formats whose own reader rejects the writer's
// output: what did the writer actually put into the file?)
struct FileFrame { std::vector<std::string> names, resnames; std::vector<V3> pos; bool cryst1 = false; int malformed = 0; std::string badline; };
static std::string trim(std::string s) {
  size_t a = s.find_first_not_of(' '), b = s.find_last_not_of(' ');
  return a == std::string::npos ? "" : s.substr(a, b - a + 1);
}
static std::vector<FileFrame> parse_xyz(const std::string &file) {
  std::vector<FileFrame> out;
  std::ifstream in(file);
  std::string line;
  while (std::getline(in, line)) {
    std::istringstream ss(line);
    long n; std::string rest;
    if (!(ss >> n) || (ss >> rest)) continue;  // skip until a bare count line
    FileFrame F;
    std::getline(in, line);  // comment line
    while ((long)F.pos.size() < n && std::getline(in, line)) {
      // strict: exactly four white-space separated tokens, three of them numbers
      std::vector<std::string> tk;
      { std::istringstream as(line); std::string t; while (as >> t) tk.push_back(t); }
      std::string nm; double x = 0, y = 0, z = 0;
      bool good = tk.size() == 4;
      if (good) {
        nm = tk[0];
        double *dst[3] = {&x, &y, &z};
        for (int k = 0; k < 3; ++k) { char *e = nullptr; *dst[k] = strtod(tk[k + 1].c_str(), &e); if (!e || *e) good = false; }
      }
      if (!good) {  // tolerate blank lines
        if (line.find_first_not_of(" \t") != std::string::npos) {  // fields run together: recover by the %10.5f columns
          ++F.malformed; F.badline = line;
          if (line.size() >= 33) {
            F.names.push_back(trim(line.substr(0, line.size() - 30)));
            F.pos.push_back(V3(atof(line.substr(line.size() - 30, 10).c_str()), atof(line.substr(line.size() - 20, 10).c_str()), atof(line.substr(line.size() - 10, 10).c_str())) * 0.1);
          }
        }
        continue;
      }
      F.names.push_back(nm);
      F.pos.push_back(V3(x, y, z) * 0.1);  // xyz is in Angstrom by definition
    }
    out.push_back(F);
  }
  return out;
}
static std::vector<FileFrame> parse_pdb(const std::string &file) {
  std::vector<FileFrame> out;
  std::ifstream in(file);
  std::string line;
  FileFrame F;
  bool open = false, cryst = false;
  while (std::getline(in, line)) {
    if (line.rfind("CRYST1", 0) == 0) cryst = true;
    if (line.rfind("MODEL", 0) == 0) { F = FileFrame(); open = true; }
    if ((line.rfind("ATOM", 0) == 0 || line.rfind("HETATM", 0) == 0) && line.size() >= 54) {
      open = true;
      F.names.push_back(trim(line.substr(12, 4)));
      F.resnames.push_back(trim(line.substr(17, 3)));
      F.pos.push_back(V3(atof(line.substr(30, 8).c_str()), atof(line.substr(38, 8).c_str()), atof(line.substr(46, 8).c_str())) * 0.1);
    }
    if (line.rfind("ENDMDL", 0) == 0 || line == "END") { F.cryst1 = cryst; out.push_back(F); F = FileFrame(); open = false; cryst = false; }
  }
  if (open && !F.pos.empty()) { F.cryst1 = cryst; out.push_back(F); }
  return out;
}

// ------------------------------------------------- trajectory round trip
static void judge_frames(const CaseD &c, const std::string &fmt, const std::vector<Snap> &got, const std::string &file,
                         bool config, const std::string &via) {
  Tol T = tol_of(c.fmt == "dlph" || c.fmt == "dlpc" ? "dlpoly" : c.fmt, config);
  auto W = [&]() { J w = case_json(c); w.s("observed_via", via).s("file_head", slurp(file, 1500)); return w; };
  bool st_vel = fmt == "gro" || fmt == "dump" || fmt == "dlpoly";
  bool st_frc = fmt == "dump" || fmt == "dlpoly";
  bool st_box = fmt != "xyz";
  bool st_step = fmt == "dump" || (fmt == "dlpoly" && !config);
  // DL_POLY can only store forces together with velocities (keytrj 0/1/2)
  size_t nexp = config ? 1 : c.fr.size();
  judge(fmt, "frame-count", got.size() == nexp, fmt + "/frame-count", "number of frames read back differs from the number written",
        W().i("frames_written", (long long)nexp).i("frames_read", (long long)got.size()));
  for (size_t f = 0; f < got.size() && f < nexp; ++f) {
    const FrameD &E = c.fr[f];
    const Snap &G = got[f];
    const bool exp_vel = fvel(c, E) && st_vel;
    const bool exp_frc = ffrc(c, E) && st_frc && (fmt != "dlpoly" || fvel(c, E));
    const int ekind = fkind(c, E);
    if (!judge(fmt, "bead-count", G.nbeads == c.n, fmt + "/bead-count", "bead count after reading differs", W().i("frame", (long long)f).i("got", G.nbeads)))
      continue;
    Cmp cp = cmp_vecs(G.pos, E.pos, T.pos_abs, T.sig, T.scale);
    if (cp.bad()) {
      // is it another frame of the sequence? (order)
      int other = -1;
      for (size_t g = 0; g < nexp; ++g)
        if (g != f && !cmp_vecs(G.pos, c.fr[g].pos, T.pos_abs, T.sig, T.scale).bad()) other = (int)g;
      J w = W(); w.i("frame", (long long)f); add_cmp(w, cp, "position");
      if (other >= 0)
        judge(fmt, "frame-order", false, fmt + "/frame-order", "frame read at this index holds the data of another frame", w.i("matches_written_frame", other));
      else
        judge(fmt, "positions", false, fmt + (cp.units ? "/positions-units" : "/positions-values"),
              cp.units ? "positions come back scaled by a constant factor (unit mix-up)" : "positions differ by more than half a unit of the last printed digit", w);
    } else {
      judge(fmt, "positions", true, "", "", J());
      if (nexp > 1) judge(fmt, "frame-order", true, "", "", J());
    }
    if (st_vel && via == "reader") {
      if (exp_vel) {
        bool all = true;
        for (char h : G.hv) all = all && h;
        if (!all) judge(fmt, "velocities", false, fmt + "/velocities-missing", "velocities were written but are not set after reading", W().i("frame", (long long)f));
        else {
          Cmp cv = cmp_vecs(G.vel, E.vel, T.vel_abs, T.sig, T.scale);
          J w = W(); w.i("frame", (long long)f); add_cmp(w, cv, "velocity");
          judge(fmt, "velocities", !cv.bad(), fmt + (cv.units ? "/velocities-units" : "/velocities-values"),
                cv.units ? "velocities come back scaled by a constant factor (unit mix-up)" : "velocities differ by more than half a unit of the last printed digit", w);
        }
      } else if (E.hv == 0) {  // a frame without velocities inside a sequence that has some
        bool any = false;
        for (char h : G.hv) any = any || h;
        R.counter(fmt + (any ? "/frame without velocity columns: beads keep the previous frame's velocities (observed, not judged)" : "/frame without velocity columns: beads have no velocity (observed)"));
      }
    }
    if (st_frc && via == "reader") {
      if (exp_frc) {
        bool all = true;
        for (char h : G.hf) all = all && h;
        if (!all) judge(fmt, "forces", false, fmt + "/forces-missing", "forces were written but are not set after reading", W().i("frame", (long long)f));
        else {
          Cmp cf = cmp_vecs(G.frc, E.frc, T.frc_abs, T.sig, T.scale);
          J w = W(); w.i("frame", (long long)f); add_cmp(w, cf, "force");
          judge(fmt, "forces", !cf.bad(), fmt + (cf.units ? "/forces-units" : "/forces-values"),
                cf.units ? "forces come back scaled by a constant factor (unit mix-up)" : "forces differ by more than half a unit of the last printed digit", w);
        }
      }
    }
    if (st_box && via == "reader") {
      double worstd = 0, worsto = 0;
      for (int i = 0; i < 3; ++i)
        for (int j = 0; j < 3; ++j) {
          double t = tol1(E.box(i, j), T.box_abs, T.sig, T.scale);
          double d = std::fabs(G.box(i, j) - E.box(i, j)) / t;
          if (i == j) worstd = std::max(worstd, d); else worsto = std::max(worsto, d);
        }
      J w = W(); w.i("frame", (long long)f).vec("box_read_rowmajor", flat(G.box)).vec("box_written_rowmajor", flat(E.box));
      bool lost = G.box.isZero(0) && !E.box.isZero(0);
      if (lost) {  // nothing came back at all
        judge(fmt, "box-diagonal", false, fmt + (ekind == 2 ? "/box-missing-triclinic" : "/box-missing"), "the box is not stored / not read: it comes back as zero", w);
        continue;
      }
      judge(fmt, "box-diagonal", worstd <= 1, fmt + "/box-diagonal", "box diagonal differs after the round trip", w);
      if (ekind == 2) {
        std::string key = fmt + "/box-offdiagonal", what = "off-diagonal box elements differ after the round trip";
        {  // which tilt pattern, which element
          static const char *EN[3][3] = {{"a_x", "b_x", "c_x"}, {"a_y", "b_y", "c_y"}, {"a_z", "b_z", "c_z"}};
          double wd = -1; int wi = 0, wj = 1; bool weaklost = false;
          for (int i = 0; i < 3; ++i)
            for (int j = 0; j < 3; ++j) {
              if (i == j) continue;
              double t = tol1(E.box(i, j), T.box_abs, T.sig, T.scale), d = std::fabs(G.box(i, j) - E.box(i, j)) / t;
              if (d > wd) { wd = d; wi = i; wj = j; }
              if (E.box(i, j) != 0 && std::fabs(E.box(i, j)) <= t) weaklost = true;
            }
          w.s("tilt_pattern_written", tilt_pattern(E.box)).s("element_that_differs_most", std::string("box(") + std::to_string(wi) + "," + std::to_string(wj) + ") = " + EN[wi][wj])
              .d("written", E.box(wi, wj)).d("read", G.box(wi, wj));
          if (g_scenario.empty()) R.counter("triclinic frames judged, " + fmt + ", tilts " + tilt_pattern(E.box));
          if (weaklost) R.counter(fmt + "/tilt below half a unit of the last printed digit (may legitimately be lost)");
        }
        if (worsto > 1) {
          bool transposed = true, dropped = true;
          for (int i = 0; i < 3; ++i)
            for (int j = 0; j < 3; ++j) {
              double t = tol1(E.box(j, i), T.box_abs, T.sig, T.scale);
              if (std::fabs(G.box(i, j) - E.box(j, i)) > t) transposed = false;
              if (i != j && G.box(i, j) != 0) dropped = false;
            }
          if (fmt == "dump") { key = "dump/triclinic-tilt"; what = "triclinic tilt factors are not written / read: off-diagonal box elements are lost"; }
          else if (transposed) { key = fmt + "/box-transposed"; what = "box matrix comes back transposed (rows written, columns read)"; }
          else if (dropped) { what = "off-diagonal box elements are dropped (read back as 0)"; }
        }
        judge(fmt, "box-offdiagonal", worsto <= 1, key, what, w);
      }
    }
    if (st_step && via == "reader")
      judge(fmt, "step", G.step == E.step, fmt + "/step", "time step number differs after the round trip", W().i("frame", (long long)f).i("got", G.step));
  }
}

// ------------------------------------------------------------ children
// Crash-prone reads run in a fresh process (posix_spawn of this program in a
// "child-*" mode; fork() of an ASan process costs ~0.5 s here).
struct Child { bool signaled = false; int sig = 0, code = 0; std::string out, err; };
extern char **environ;
static Child spawn_self(const std::vector<std::string> &args) {
  std::cout.flush();
  std::string ef = g_dir + "/child.err";
  int p[2];
  if (pipe(p) != 0) { perror("pipe"); exit(3); }
  posix_spawn_file_actions_t fa;
  posix_spawn_file_actions_init(&fa);
  posix_spawn_file_actions_addclose(&fa, p[0]);
  posix_spawn_file_actions_adddup2(&fa, p[1], 1);
  posix_spawn_file_actions_addclose(&fa, p[1]);
  posix_spawn_file_actions_addopen(&fa, 2, ef.c_str(), O_WRONLY | O_CREAT | O_TRUNC, 0644);
  std::vector<std::string> a = {"/proc/self/exe"};
  a.insert(a.end(), args.begin(), args.end());
  std::vector<char *> av;
  for (auto &x : a) av.push_back(const_cast<char *>(x.c_str()));
  av.push_back(nullptr);
  pid_t pid;
  int rc = posix_spawn(&pid, "/proc/self/exe", &fa, nullptr, av.data(), environ);
  posix_spawn_file_actions_destroy(&fa);
  close(p[1]);
  Child c;
  if (rc != 0) { close(p[0]); c.code = 99; c.out = "posix_spawn failed"; return c; }
  char buf[4096];
  ssize_t k;
  while ((k = read(p[0], buf, sizeof buf)) > 0) c.out.append(buf, (size_t)k);
  close(p[0]);
  int st = 0;
  waitpid(pid, &st, 0);
  if (WIFSIGNALED(st)) { c.signaled = true; c.sig = WTERMSIG(st); } else c.code = WEXITSTATUS(st);
  c.err = slurp(ef, 1 << 20);
  if (c.err.size() > 5000) c.err = c.err.substr(0, 3500) + "\n...\n" + c.err.substr(c.err.size() - 1200);
  return c;
}
// child-traj: read a trajectory into a topology of ntop beads; exit 10 = the
// reader threw, 11 = it accepted every frame
static int child_traj(const std::string &file, int ntop) {
  Topology dst;
  dst.CreateResidue("RES");
  dst.RegisterBeadType("T");
  for (int i = 0; i < ntop; ++i) dst.CreateBead(Bead::spherical, "B", "T", 0, 1.0, 0.0);
  int frames = 0;
  std::string msg;
  int code = 11;
  {
    Quiet q;
    std::unique_ptr<TrajectoryReader> rd = TrjReaderFactory().Create(file);
    rd->Open(file);
    try {
      rd->FirstFrame(dst);
      frames = 1;
      while (frames < 4 && rd->NextFrame(dst)) ++frames;
      msg = "no exception; frames accepted: " + std::to_string(frames);
    } catch (std::exception &e) { msg = e.what(); code = 10; }
  }
  std::cout << msg << std::flush;
  return code;
}
static int child_top(const std::string &file) {
  try {
    Quiet q;
    Topology t3;
    std::unique_ptr<TopologyReader> tr = TopReaderFactory().Create(file);
    tr->ReadTopology(file, t3);
  } catch (std::exception &e) { std::cout << e.what() << std::flush; return 10; }
  return 0;
}

static long g_rt = 0;
static void roundtrip(const CaseD &c, const std::string &file, const std::string &fmt, bool config = false) {
  new_case();
  ++g_rt;
  R.eval(fmt + (config ? "-config" : "") + "/roundtrip");
  R.nontrivial(case_hash(c));
  try {
    write_case(file, c, false, -1, 0, config ? 1 : 1000);
  } catch (std::exception &e) {
    judge(fmt, "write", false, fmt + "/write-threw", "writer threw on a valid topology", case_json(c).s("exception", e.what()));
    return;
  }
  judge(fmt, "write", true, "", "", J());
  std::vector<Snap> got;
  bool reread = true;
  std::string msg;
  try {
    Topology dst;
    build_top(dst, c);
    got = read_traj(file, dst);
  } catch (std::exception &e) {
    reread = false;
    msg = e.what();
  }
  // sub-family keys: DL_POLY HISTORY with an unrounded MD time step; xyz files
  // whose %10.5f fields actually run together (file-level observation)
  int xyz_runtogether = 0;
  if (fmt == "xyz") for (auto &F : parse_xyz(file)) xyz_runtogether += F.malformed;
  std::string rkey = fmt + "/reread-rejected";
  if (fmt == "dlpoly" && !config && !c.tag.empty()) rkey += "-" + c.tag;
  if (fmt == "xyz" && xyz_runtogether > 0) rkey += "-wide-coordinates";
  judge(fmt, "reread", reread, rkey, "the matching reader throws on the file its own writer produced",
        case_json(c, 1).s("exception", msg).s("file_head", slurp(file, 1500)));
  if (fmt == "xyz") {
    int mal = 0; std::string bl;
    for (auto &F : parse_xyz(file)) { mal += F.malformed; if (F.malformed) bl = F.badline; }
    judge(fmt, "field-separation", mal == 0, "xyz/fields-run-together", "the written xyz file has atom lines whose %10.5f fields are not separated by white space (x <= -100 A or >= 1000 A)",
          case_json(c, 1).i("malformed_lines", mal).s("example_line", bl));
  }
  if (reread) {
    judge_frames(c, fmt, got, file, config, "reader");
  } else if (fmt == "xyz" || fmt == "pdb") {
    // file-level view: what did the writer put into the file?
    std::vector<FileFrame> ff = fmt == "xyz" ? parse_xyz(file) : parse_pdb(file);
    std::vector<Snap> fs;
    for (auto &F : ff) { Snap s; s.pos = F.pos; s.nbeads = (int)F.pos.size(); s.step = 0; s.box = M3::Zero(); fs.push_back(s); }
    judge_frames(c, fmt, fs, file, false, "file-parser");
    if (!ff.empty() && (int)ff[0].names.size() == c.n) {
      size_t w = fmt == "xyz" ? 3 : 4;
      int badi = -1;
      for (int i = 0; i < c.n; ++i) if (ff[0].names[i] != c.name[i].substr(0, w)) { badi = i; break; }
      judge(fmt, "names", badi < 0, fmt + "/names", "name column of the written file is not the bead name (truncated to the field width)",
            case_json(c, 1).s("observed_via", "file-parser").i("bead", badi).s("got", badi >= 0 ? ff[0].names[badi] : "").s("expected", badi >= 0 ? c.name[badi].substr(0, w) : ""));
      if (fmt == "pdb") {
        int br = -1;
        for (int i = 0; i < c.n; ++i) if (ff[0].resnames[i] != c.resname[c.resnr[i]].substr(0, 3)) { br = i; break; }
        judge(fmt, "resnames", br < 0, "pdb/resnames", "residue name column of the written file is not the residue name (3 characters)",
              case_json(c, 1).s("observed_via", "file-parser").i("bead", br));
      }
    }
    if (fmt == "pdb" && !ff.empty() && c.boxkind != 0)
      judge(fmt, "box-diagonal", ff[0].cryst1, c.boxkind == 2 ? "pdb/box-missing-triclinic" : "pdb/box-missing", "the pdb writer emits no CRYST1 record: the box is lost", case_json(c, 1).s("file_head", slurp(file, 600)));
  }
  if (R.want_sample() && c.n <= 3) R.sample(case_json(c, 1).b("reread_ok", reread));

  // topology mode: the same file read through TopReaderFactory
  // (dump: needs a probe process per case, so only every 4th case)
  if (fmt == "gro" || (fmt == "dump" && (g_rt <= 4 || g_rt % 4 == 0)) || fmt == "xyz") {
    R.eval(fmt + "/as-topology");
    Topology t2;
    bool ok = true;
    std::string m2;
    if (fmt == "dump") {
      // the topology reader can abort on its own writer's output: probe in a child
      Child ch = spawn_self({"--family", "child-top", "--file", file});
      if (!ch.signaled && ch.code != 0 && ch.code != 10) ch = spawn_self({"--family", "child-top", "--file", file});  // e.g. ASan start-up failure under load
      if (ch.signaled) {
        judge(fmt, "topology-read", false, "dump/topology-read-crash", "TopologyReader aborts on the file written by the trajectory writer",
              case_json(c, 1).s("file_head", slurp(file, 1000)).i("signal", ch.sig).s("stderr", ch.err));
        return;
      }
      if (ch.code != 0 && ch.code != 10) {
        R.counter("probe_process_failed_not_judged");
        return;
      }
    }
    try {
      Quiet q;
      std::unique_ptr<TopologyReader> tr = TopReaderFactory().Create(file);
      tr->ReadTopology(file, t2);
    } catch (std::exception &e) { ok = false; m2 = e.what(); }
    if (fmt != "xyz" || reread)  // xyz: the rejection is already recorded above
      judge(fmt, "topology-read", ok, fmt + "/topology-read-rejected", "TopologyReader throws on the file written by the trajectory writer",
            case_json(c, 1).s("exception", m2).s("file_head", slurp(file, 1000)));
    if (ok) {
      if (judge(fmt, "topology-bead-count", t2.BeadCount() == c.n, fmt + "/topology-bead-count", "bead count of the topology read from the file differs",
                case_json(c, 1).i("got", (long long)t2.BeadCount()))) {
        int bad = -1;
        std::string g, e;
        for (int i = 0; i < c.n && bad < 0; ++i) {
          Bead *b = t2.getBead(i);
          if (fmt == "gro") {
            if (b->getName() != c.name[i].substr(0, 5)) { bad = i; g = b->getName(); e = c.name[i].substr(0, 5); }
            else if (b->getResnr() != c.resnr[i]) { bad = i; g = std::to_string(b->getResnr()); e = std::to_string(c.resnr[i]); }
            else if (t2.getResidue(b->getResnr()).getName() != c.resname[c.resnr[i]].substr(0, 5)) { bad = i; g = t2.getResidue(b->getResnr()).getName(); e = c.resname[c.resnr[i]].substr(0, 5); }
          } else if (fmt == "xyz") {
            if (b->getType() != c.name[i].substr(0, 3)) { bad = i; g = b->getType(); e = c.name[i].substr(0, 3); }
          } else {  // dump stores the numeric type id only
            Topology ref; build_top(ref, c);
            std::string want = std::to_string(ref.getBeadTypeId(c.type[i]));
            if (b->getType() != want) { bad = i; g = b->getType(); e = want; }
          }
        }
        judge(fmt, "names", bad < 0, fmt + "/names", "names/types stored by the format differ after reading the file as a topology",
              case_json(c, 1).i("bead", bad).s("got", g).s("expected", e));
        Tol T = tol_of(fmt, false);
        std::vector<V3> gp;
        for (int i = 0; i < c.n; ++i) gp.push_back(t2.getBead(i)->HasPos() ? t2.getBead(i)->getPos() : V3(NAN, NAN, NAN));
        Cmp cp = cmp_vecs(gp, c.fr[0].pos, T.pos_abs, T.sig, T.scale);
        J w = case_json(c, 1); add_cmp(w, cp, "position");
        judge(fmt, "topology-positions", !cp.bad(), fmt + (cp.units ? "/positions-units" : "/positions-values"), "positions of the topology read from the file differ from the first frame", w);
      }
    }
  }
}

// hand-written files in the formats' official layouts (used where the
// library writer's output is not accepted by the library reader)
static void write_xyz_ref(const std::string &file, const CaseD &c, int nb, bool append) {
  std::ofstream o(file, append ? std::ios::app : std::ios::out);
  o << nb << "\nhand written\n";
  char b[200];
  for (int i = 0; i < nb; ++i) {
    const V3 &p = c.fr[0].pos[i % c.n];
    snprintf(b, sizeof b, "%-3s %12.5f %12.5f %12.5f\n", c.name[i % c.n].substr(0, 3).c_str(), p.x() * 10, p.y() * 10, p.z() * 10);
    o << b;
  }
}
static void write_pdb_ref(const std::string &file, const CaseD &c, int nb, bool append, int model) {
  std::ofstream o(file, append ? std::ios::app : std::ios::out);
  char b[200];
  snprintf(b, sizeof b, "MODEL     %4d\n", model);
  o << b;
  for (int i = 0; i < nb; ++i) {
    const V3 &p = c.fr[0].pos[i % c.n];
    snprintf(b, sizeof b, "ATOM  %5d %-4s %-3s A%4d    %8.3f%8.3f%8.3f%6.2f%6.2f          %2s  \n", (i + 1) % 100000, "C", "MOL", 1,
             p.x() * 10, p.y() * 10, p.z() * 10, 1.0, 0.0, "C");
    o << b;
  }
  o << "ENDMDL\n";
}

// a reader given a frame whose atom count disagrees with the topology must
// report an error. mode 0: first frame disagrees; mode 1: second frame does.
static void atomcount_case(vfh::Rng &r, const std::string &ext, const std::string &fmt, const std::string &file) {
  new_case();
  CaseD c = gen_case(r, ext == "dlph" || ext == "dlpc" ? "dump" : ext, 40, 1, g_minimal ? 0 : -1);
  c.fmt = ext;
  c.tag = "";
  c.boxkind = c.boxkind == 2 ? 1 : c.boxkind;
  for (auto &F : c.fr) { M3 b = M3::Zero(); b.diagonal() = F.box.diagonal(); F.box = b; }
  int nfile = c.n + 1 + (int)r.range(0, 2);   // beads in the (deviating) frame
  int ntop = c.n;
  int dir = (int)r.range(0, 1);                // 0: frame has more atoms, 1: fewer
  if (dir == 1) { ntop = nfile; nfile = c.n; }
  int mode = (ext == "dlph" || ext == "dlpc") ? 0 : (int)r.range(0, 1);
  std::string famkey = fmt + "/atomcount";
  R.eval(fmt + "/atomcount");
  R.nontrivial(vfh::hmix(case_hash(c), nfile * 1000 + ntop + mode));
  bool handwritten = ext == "xyz" || ext == "pdb";
  try {
    if (handwritten) {
      if (mode == 1) { ext == "xyz" ? write_xyz_ref(file, c, ntop, false) : write_pdb_ref(file, c, ntop, false, 1); }
      ext == "xyz" ? write_xyz_ref(file, c, nfile, mode == 1) : write_pdb_ref(file, c, nfile, mode == 1, 2);
    } else {
      if (mode == 1) write_case(file, c, false, ntop);
      write_case(file, c, mode == 1, nfile);
    }
  } catch (std::exception &e) {
    R.inconclusive(std::string("atomcount: could not write input file: ") + e.what());
    return;
  }
  J w;
  w.s("format", ext).i("beads_in_topology", ntop).i("atoms_in_deviating_frame", nfile).i("deviating_frame_index", mode)
      .b("file_written_by_harness", handwritten).s("file", slurp(file, 2500)).raw("case", case_json(c, 1).str());
  Child ch = spawn_self({"--family", "child-traj", "--file", file, "--ntop", std::to_string(ntop)});
  if (!ch.signaled && ch.code != 10 && ch.code != 11) ch = spawn_self({"--family", "child-traj", "--file", file, "--ntop", std::to_string(ntop)});
  if (ch.signaled) {
    judge(fmt, "atomcount", false, fmt + "/atomcount-crash", "reader neither reports the atom-count mismatch nor survives it (abort / memory error)",
          w.i("signal", ch.sig).s("stderr", ch.err));
  } else if (ch.code == 11) {
    judge(fmt, "atomcount", false, fmt + "/atomcount-no-error", "reader accepts a frame whose atom count differs from the topology", w.s("reader_said", ch.out));
  } else if (ch.code == 10) {
    judge(fmt, "atomcount", true, "", "", J());
    R.counter(fmt + "/atomcount_error_reported");
  } else {
    R.counter("probe_process_failed_not_judged");
  }
}

// ------------------------------------------------------------------- xml
static void xml_case(vfh::Rng &r, const std::string &file) {
  new_case();
  struct MolT { std::string name; int nb, nm; std::vector<std::string> bn, bt; std::vector<double> m, q; bool resid; std::vector<int> rid; };
  int nt = (int)r.range(1, 3);
  std::vector<MolT> mt;
  int resbase = 0;
  for (int t = 0; t < nt; ++t) {
    MolT M;
    M.name = "M" + std::to_string(t) + rname(r, 3);
    M.nb = (int)r.range(1, 12);
    M.nm = (int)r.range(1, 5);
    M.resid = false;
    for (int i = 0; i < M.nb; ++i) {
      M.bn.push_back("B" + std::to_string(i) + rname(r, 2));
      M.bt.push_back("T" + std::to_string(r.range(0, 3)));
      M.m.push_back(r.coin(0.2) ? 1.0 : r.uni(0.5, 250));
      M.q.push_back(r.coin(0.4) ? 0.0 : r.uni(-2, 2));
    }
    (void)resbase;
    mt.push_back(M);
  }
  double bx = r.logu(0.5, 50), by = r.logu(0.5, 50), bz = r.logu(0.5, 50);
  bool hasbox = r.coin(0.8);
  // bonded
  struct Bd { std::string kind, name; int mol; std::vector<std::vector<int>> tuples; };
  std::vector<Bd> bonded;
  for (int t = 0; t < nt; ++t) {
    int kinds[3] = {2, 3, 4};
    const char *kn[3] = {"bond", "angle", "dihedral"};
    for (int k = 0; k < 3; ++k) {
      if (mt[t].nb < kinds[k] || !r.coin(0.6)) continue;
      Bd b; b.kind = kn[k]; b.name = std::string(kn[k]) + "_" + mt[t].name; b.mol = t;
      int cnt = (int)r.range(1, 3);
      for (int i = 0; i < cnt; ++i) {
        int start = (int)r.range(0, mt[t].nb - kinds[k]);
        std::vector<int> tu;
        for (int a = 0; a < kinds[k]; ++a) tu.push_back(start + a);
        b.tuples.push_back(tu);
      }
      bonded.push_back(b);
    }
  }
  std::ostringstream x;
  x << std::setprecision(17);
  x << "<topology>\n <molecules>\n";
  for (auto &M : mt) {
    x << "  <molecule name=\"" << M.name << "\" nmols=\"" << M.nm << "\" nbeads=\"" << M.nb << "\">\n";
    for (int i = 0; i < M.nb; ++i)
      x << "   <bead name=\"" << M.bn[i] << "\" type=\"" << M.bt[i] << "\" mass=\"" << M.m[i] << "\" q=\"" << M.q[i] << "\"/>\n";
    x << "  </molecule>\n";
  }
  x << " </molecules>\n";
  if (!bonded.empty()) {
    x << " <bonded>\n";
    for (auto &b : bonded) {
      x << "  <" << b.kind << ">\n   <name>" << b.name << "</name>\n   <beads>\n";
      for (auto &tu : b.tuples) {
        x << "    ";
        for (int a : tu) x << mt[b.mol].name << ":" << mt[b.mol].bn[a] << " ";
        x << "\n";
      }
      x << "   </beads>\n  </" << b.kind << ">\n";
    }
    x << " </bonded>\n";
  }
  if (hasbox) x << " <box xx=\"" << bx << "\" yy=\"" << by << "\" zz=\"" << bz << "\"/>\n";
  x << "</topology>\n";
  { std::ofstream o(file); o << x.str(); }
  R.eval("xml/topology");
  uint64_t h = vfh::hstr(31, x.str());
  R.nontrivial(h);
  auto W = [&]() { J w; w.s("xml", x.str()); return w; };
  Topology top;
  try {
    Quiet q;
    std::unique_ptr<TopologyReader> tr = TopReaderFactory().Create(file);
    tr->ReadTopology(file, top);
  } catch (std::exception &e) {
    judge("xml", "read", false, "xml/read-rejected", "XML topology reader throws on a valid topology file", W().s("exception", e.what()));
    return;
  }
  judge("xml", "read", true, "", "", J());
  // expected beads
  std::vector<std::string> en, et, emol;
  std::vector<double> em, eq;
  std::vector<int> molfirst;  // first global bead of each molecule instance
  std::vector<int> moltype;
  for (int t = 0; t < nt; ++t)
    for (int k = 0; k < mt[t].nm; ++k) {
      molfirst.push_back((int)en.size());
      moltype.push_back(t);
      for (int i = 0; i < mt[t].nb; ++i) { en.push_back(mt[t].bn[i]); et.push_back(mt[t].bt[i]); em.push_back(mt[t].m[i]); eq.push_back(mt[t].q[i]); emol.push_back(mt[t].name); }
    }
  if (!judge("xml", "bead-count", (size_t)top.BeadCount() == en.size(), "xml/bead-count", "bead count differs from sum(nmols*nbeads)", W().i("got", (long long)top.BeadCount()).i("expected", (long long)en.size())))
    return;
  int bad = -1; std::string what;
  for (size_t i = 0; i < en.size() && bad < 0; ++i) {
    Bead *b = top.getBead((Index)i);
    if (b->getName() != en[i]) { bad = (int)i; what = "name " + b->getName() + " != " + en[i]; }
    else if (b->getType() != et[i]) { bad = (int)i; what = "type " + b->getType() + " != " + et[i]; }
    else if (!(std::fabs(b->getMass() - em[i]) <= 4 * EPS * em[i])) { bad = (int)i; what = "mass"; }
    else if (!(std::fabs(b->getQ() - eq[i]) <= 4 * EPS * std::fabs(eq[i]))) { bad = (int)i; what = "charge"; }
  }
  judge("xml", "names", bad < 0, "xml/bead-attributes", "bead name/type/mass/charge differ from the file", W().i("bead", bad).s("difference", what));
  bool molok = (size_t)top.MoleculeCount() == molfirst.size();
  for (size_t m = 0; molok && m < molfirst.size(); ++m) {
    Molecule *mi = top.getMolecule((Index)m);
    if (mi->getName() != mt[moltype[m]].name || mi->BeadCount() != mt[moltype[m]].nb) molok = false;
    for (Index i = 0; molok && i < mi->BeadCount(); ++i) if (mi->getBead(i)->getId() != molfirst[m] + i) molok = false;
  }
  judge("xml", "molecules", molok, "xml/molecules", "molecule list (names, bead membership) differs from the file", W().i("got_molecules", (long long)top.MoleculeCount()));
  // bonded interactions as a multiset of (group, ids)
  std::multiset<std::string> exp, got;
  for (auto &b : bonded)
    for (auto &tu : b.tuples)
      for (size_t m = 0; m < molfirst.size(); ++m)
        if (moltype[m] == b.mol) {
          std::string s = b.name;
          for (int a : tu) s += ":" + std::to_string(molfirst[m] + a);
          exp.insert(s);
        }
  for (Interaction *ic : top.BondedInteractions()) {
    std::string s = ic->getGroup();
    for (Index k = 0; k < ic->BeadCount(); ++k) s += ":" + std::to_string(ic->getBeadId(k));
    got.insert(s);
  }
  judge("xml", "bonded", exp == got, "xml/bonded", "bonded interactions differ from the file", W().i("got", (long long)got.size()).i("expected", (long long)exp.size()));
  if (hasbox) {
    M3 b = top.getBox();
    bool ok = b(0, 0) == bx && b(1, 1) == by && b(2, 2) == bz;
    for (int i = 0; i < 3; ++i) for (int j = 0; j < 3; ++j) if (i != j && b(i, j) != 0) ok = false;
    judge("xml", "box-diagonal", ok, "xml/box", "box differs from the <box> element", W().vec("got_rowmajor", flat(b)));
  }
  if (R.want_sample() && en.size() <= 4) R.sample(J().s("xml", x.str()).i("beads_read", (long long)top.BeadCount()));
}

// ----------------------------------------------------------------- table
static double rval(vfh::Rng &r) {
  int c = (int)r.range(0, 9);
  if (c == 0) return 0.0;
  if (c == 1) return (double)r.range(-1000, 1000);
  if (c == 2) return r.uni(-1, 1) * r.logu(1e-12, 1e12);
  if (c == 3) return r.uni(-1, 1) * 1e-5;
  return r.uni(-1, 1) * r.logu(1e-3, 1e3);
}
static double tol_sig(double e, int sig) { return tol1(e, 0, sig, 1.0); }

static void table_case(vfh::Rng &r, const std::string &file) {
  new_case();
  using votca::tools::Table;
  int cls = (int)r.range(0, 9);
  int n = cls == 0 ? 1 : (cls <= 6 ? (int)r.range(2, 40) : (int)r.range(41, 1000));
  if (g_minimal) n = (int)r.range(1, 3);
  bool yerr = r.coin(0.5), comment = r.coin(0.5), uniform = r.coin(0.6);
  std::vector<double> x(n), y(n), ye(n);
  std::vector<char> fl(n);
  double x0 = r.uni(-5, 5), dx = r.logu(1e-3, 1.0);
  for (int i = 0; i < n; ++i) {
    x[i] = uniform ? x0 + i * dx : (i ? x[i - 1] + r.logu(1e-4, 1.0) : x0);
    y[i] = rval(r);
    ye[i] = std::fabs(rval(r));
    fl[i] = "iou"[r.range(0, 2)];
    if (!g_minimal && r.coin(0.01)) { y[i] = NAN; fl[i] = 'u'; }  // undefined region
  }
  std::string com;
  if (comment) {
    static const char *C[] = {"created by csg_stat", "1 2 3", "0.5 1.5 i", "two\nlines 7 8 u", "escaped\\nnewline 4 5", "x y flag # nested"};
    com = C[r.range(0, 5)];
  }
  Table t;
  t.SetHasYErr(yerr);
  t.resize(n);
  for (int i = 0; i < n; ++i) { if (yerr) t.set(i, x[i], y[i], fl[i], ye[i]); else t.set(i, x[i], y[i], fl[i]); }
  if (comment) t.set_comment(com);
  R.eval("table/save-load");
  uint64_t h = vfh::hmix(11, n);
  h = vfh::hdouble(h, x[0]); h = vfh::hdouble(h, y[0]); h = vfh::hdouble(h, y[n - 1]); h = vfh::hmix(h, yerr * 2 + comment);
  if (n >= 2) R.nontrivial(h);
  auto W = [&]() {
    J w; w.i("n", n).b("has_yerr", yerr).b("has_comment", comment).s("comment", com).vec("x", x).vec("y", y);
    std::string f(fl.begin(), fl.end()); w.s("flags", f);
    if (yerr) w.vec("yerr", ye);
    w.s("file_head", slurp(file, 1200));
    return w;
  };
  try { Quiet q; t.Save(file); } catch (std::exception &e) { judge("table", "save", false, "table/save-threw", "Table::Save threw", W().s("exception", e.what())); return; }
  for (int pass = 0; pass < 2; ++pass) {
    Table u;
    if (pass == 1) { if (!yerr) break; u.SetHasYErr(true); }
    try { Quiet q; u.Load(file); } catch (std::exception &e) {
      judge("table", "load", false, comment ? "table/comment-breaks-load" : "table/load-rejected", "Table::Load throws on a file written by Table::Save", W().s("exception", e.what()));
      return;
    }
    if (!judge("table", "size", u.size() == n, comment ? "table/comment-corrupts-data" : "table/size", "number of rows differs after Save/Load", W().i("got_rows", (long long)u.size())))
      return;
    int bx = -1, byy = -1, bf = -1;
    for (int i = 0; i < n; ++i) {
      if (bx < 0 && !(std::fabs(u.x(i) - x[i]) <= tol_sig(x[i], 10))) bx = i;
      if (byy < 0 && !(std::isnan(y[i]) ? std::isnan(u.y(i)) : std::fabs(u.y(i) - y[i]) <= tol_sig(y[i], 10))) byy = i;
      if (bf < 0 && u.flags(i) != fl[i]) bf = i;
    }
    judge("table", "x", bx < 0, "table/x-precision", "x differs by more than half a unit of the 10th significant digit", W().i("row", bx).d("got", bx >= 0 ? u.x(bx) : 0).d("expected", bx >= 0 ? x[bx] : 0));
    judge("table", "y", byy < 0, "table/y-precision", "y differs by more than half a unit of the 10th significant digit", W().i("row", byy).d("got", byy >= 0 ? u.y(byy) : 0).d("expected", byy >= 0 ? y[byy] : 0));
    judge("table", "flags", bf < 0, "table/flags", "flag column differs after Save/Load", W().i("row", bf));
    if (yerr) {
      bool ok = u.yerr().size() == n;
      int be = -1;
      double g = NAN;
      for (int i = 0; ok && i < n; ++i)
        if (!(std::fabs(u.yerr()[i] - ye[i]) <= tol_sig(ye[i], 10))) { ok = false; be = i; g = u.yerr()[i]; }
      judge("table", pass ? "error-column(dest has_yerr)" : "error-column", ok, "table/error-column",
            "error column is written by Save but not restored by Load", W().b("destination_has_yerr", pass == 1).i("yerr_size_after_load", (long long)u.yerr().size()).i("row", be).d("got", g));
    }
  }
  if (comment) R.counter("table/comment_cases");
  if (R.want_sample() && n <= 3) R.sample(W());
}

// ------------------------------------------------------------------- imc
static std::vector<std::vector<double>> parse_rows(const std::string &file) {
  std::vector<std::vector<double>> rows;
  std::ifstream in(file);
  std::string line;
  while (std::getline(in, line)) {
    std::istringstream ss(line);
    std::vector<double> row;
    double v;
    while (ss >> v) row.push_back(v);
    if (!row.empty()) rows.push_back(row);
  }
  return rows;
}
static void imc_matrix_case(vfh::Rng &r, const std::string &file) {
  new_case();
  int cls = (int)r.range(0, 9);
  int rows = (int)r.range(1, 12), cols = cls < 4 ? rows : (int)r.range(1, 12);
  if (cls == 9) { rows = (int)r.range(20, 60); cols = (int)r.range(20, 60); }
  static int nmin = 0;
  if (g_minimal) {  // square ones first: a writer that indexes (j,i) aborts on the first non-square matrix
    rows = (int)r.range(2, 3);
    cols = ++nmin <= 6 ? rows : (int)r.range(2, 3);
  }
  bool sym = (rows == cols) && r.coin(0.25);
  Eigen::MatrixXd A(rows, cols);
  for (int i = 0; i < rows; ++i) for (int j = 0; j < cols; ++j) A(i, j) = rval(r);
  if (sym) A = (0.5 * (A + A.transpose())).eval();
  bool uselist = rows == cols && rows >= 3 && r.coin(0.25);
  std::list<Index> lst;
  Eigen::MatrixXd E = A;
  if (uselist) {
    for (int i = 0; i < rows; ++i) if (r.coin(0.6)) lst.push_back(i);
    if (lst.empty()) lst.push_back(0);
    E.resize(lst.size(), lst.size());
    int a = 0;
    for (Index i : lst) { int b = 0; for (Index j : lst) E(a, b++) = A(i, j); ++a; }
  }
  int er = (int)E.rows(), ec = (int)E.cols();
  R.eval("imc/matrix");
  // non-trivial: the row-major / column-major reading of the text differ
  bool nontriv = false;
  if (er != ec && er > 1 && ec > 1) nontriv = true;
  if (er == ec && er > 1) nontriv = (E - E.transpose()).cwiseAbs().maxCoeff() > 0;
  uint64_t h = vfh::hmix(vfh::hmix(13, er), ec);
  h = vfh::hdouble(h, E(0, 0)); h = vfh::hdouble(h, E(er - 1, ec - 1));
  if (nontriv) R.nontrivial(h);
  auto W = [&]() {
    J w; w.i("rows", er).i("cols", ec).b("via_index_list", uselist);
    std::vector<double> v; for (int i = 0; i < er; ++i) for (int j = 0; j < ec; ++j) v.push_back(E(i, j));
    w.vec("matrix_rowmajor", v).s("file_head", slurp(file, 1000));
    return w;
  };
  try { Quiet q; imcio_write_matrix(file, A, uselist ? &lst : nullptr); } catch (std::exception &e) {
    judge("imc", "matrix-write", false, "imc/matrix-write-threw", "imcio_write_matrix threw", W().s("exception", e.what())); return; }
  // file level: line i holds row i
  {
    auto rowsf = parse_rows(file);
    bool ok = (int)rowsf.size() == er;
    for (int i = 0; ok && i < er; ++i) {
      if ((int)rowsf[i].size() != ec) { ok = false; break; }
      for (int j = 0; j < ec; ++j) if (!(std::fabs(rowsf[i][j] - E(i, j)) <= tol_sig(E(i, j), 8))) ok = false;
    }
    judge("imc", "matrix-file-layout", ok, "imc/matrix-file-layout", "file written by imcio_write_matrix does not hold row i of the matrix on line i (8 significant digits)", W());
  }
  Eigen::MatrixXd B;
  try { Quiet q; B = imcio_read_matrix(file); } catch (std::exception &e) {
    judge("imc", "matrix-read", false, "imc/matrix-read-rejected", "imcio_read_matrix throws on a file written by imcio_write_matrix", W().s("exception", e.what())); return; }
  if (!judge("imc", "matrix-shape", B.rows() == er && B.cols() == ec, "imc/matrix-shape", "matrix shape differs after write/read", W().i("got_rows", (long long)B.rows()).i("got_cols", (long long)B.cols())))
    return;
  bool same = true, colmajor = true;
  int bi = -1, bj = -1;
  for (int i = 0; i < er; ++i)
    for (int j = 0; j < ec; ++j) {
      if (!(std::fabs(B(i, j) - E(i, j)) <= tol_sig(E(i, j), 8))) { if (same) { bi = i; bj = j; } same = false; }
      // the row-major text mapped column-major
      int lin = j * er + i;
      double e2 = E(lin / ec, lin % ec);
      if (!(std::fabs(B(i, j) - e2) <= tol_sig(e2, 8))) colmajor = false;
    }
  std::vector<double> gv; for (int i = 0; i < er; ++i) for (int j = 0; j < ec; ++j) gv.push_back(B(i, j));
  J w = W(); w.vec("read_back_rowmajor", gv).i("row", bi).i("col", bj);
  if (same) judge("imc", "matrix-values", true, "", "", J());
  else if (colmajor) judge("imc", "matrix-values", false, "imc/matrix-transposed", "row-major text is mapped column-major by imcio_read_matrix (square: transposed; non-square: scrambled)", w);
  else judge("imc", "matrix-values", false, "imc/matrix-values", "matrix entries differ by more than half a unit of the 8th significant digit", w);
  if (R.want_sample() && er <= 3 && ec <= 3 && nontriv) R.sample(w.b("roundtrip_equal", same));
}
static void imc_index_case(vfh::Rng &r, const std::string &file) {
  new_case();
  using votca::tools::RangeParser;
  int n = (int)r.range(1, 6);
  std::vector<std::pair<std::string, RangeParser>> idx;
  std::vector<std::vector<long>> expand;
  std::string desc;
  long cur = 1;
  for (int i = 0; i < n; ++i) {
    RangeParser rp;
    std::vector<long> ex;
    int nb = (int)r.range(1, 3);
    std::string d;
    for (int b = 0; b < nb; ++b) {
      long beg = cur + r.range(0, 3), len = r.range(0, 40), stride = r.coin(0.7) ? 1 : r.range(2, 5);
      long end = beg + len;
      rp.Add(beg, end, stride);
      for (long v = beg; v <= end; v += stride) ex.push_back(v);
      d += (b ? "," : "") + std::to_string(beg) + ":" + std::to_string(stride) + ":" + std::to_string(end);
      cur = end + 1;
    }
    std::string name = rname(r, 4) + "-" + rname(r, 4);
    idx.push_back({name, rp});
    expand.push_back(ex);
    desc += name + " " + d + "; ";
  }
  R.eval("imc/index");
  R.nontrivial(vfh::hstr(17, desc));
  auto W = [&]() { J w; w.s("ranges", desc).s("file", slurp(file, 800)); return w; };
  try { Quiet q; imcio_write_index(file, idx); } catch (std::exception &e) { judge("imc", "index", false, "imc/index-write-threw", "imcio_write_index threw", W().s("exception", e.what())); return; }
  std::vector<std::pair<std::string, RangeParser>> got;
  try { Quiet q; got = imcio_read_index(file); } catch (std::exception &e) { judge("imc", "index", false, "imc/index-read-rejected", "imcio_read_index throws on a file written by imcio_write_index", W().s("exception", e.what())); return; }
  bool ok = got.size() == idx.size();
  std::string diff;
  for (size_t i = 0; ok && i < got.size(); ++i) {
    if (got[i].first != idx[i].first) { ok = false; diff = "name " + got[i].first; break; }
    std::vector<long> ex;
    long guard = 0;
    for (RangeParser::iterator it = got[i].second.begin(); it != got[i].second.end() && guard < 100000; ++it, ++guard) ex.push_back(*it);
    if (ex != expand[i]) { ok = false; diff = "expanded range of " + got[i].first; }
  }
  judge("imc", "index", ok, "imc/index", "index ranges differ after write/read", W().s("difference", diff).i("got_entries", (long long)got.size()));
}
static void imc_ds_case(vfh::Rng &r, const std::string &file) {
  new_case();
  using votca::tools::Table;
  int n = (int)r.range(1, 60);
  Table t;
  t.resize(n);
  std::vector<double> x(n), y(n);
  for (int i = 0; i < n; ++i) { x[i] = 0.1 * i + r.uni(0, 0.05); y[i] = rval(r); t.set(i, x[i], y[i], 'i'); }
  R.eval("imc/dS");
  try { Quiet q; imcio_write_dS(file, t); } catch (std::exception &e) { judge("imc", "dS", false, "imc/dS-write-threw", "imcio_write_dS threw", J().s("exception", e.what())); return; }
  Table u;
  try { Quiet q; u.Load(file); } catch (std::exception &e) { judge("imc", "dS", false, "imc/dS-read-rejected", "Table::Load throws on a dS file", J().s("exception", e.what()).s("file", slurp(file, 600))); return; }
  bool ok = u.size() == n;
  int bad = -1;
  for (int i = 0; ok && i < n; ++i)
    if (!(std::fabs(u.x(i) - x[i]) <= tol_sig(x[i], 8)) || !(std::fabs(u.y(i) - y[i]) <= tol_sig(y[i], 8))) { ok = false; bad = i; }
  judge("imc", "dS", ok, "imc/dS", "dS vector differs after imcio_write_dS / Table::Load (8 significant digits)", J().vec("x", x).vec("y", y).i("row", bad).i("got_rows", (long long)u.size()));
}

// ===================================================== reader variants
// Harness-written files in the formats' official layouts, with the variants
// VOTCA's own writers never produce (LAMMPS dump column flavours and orders,
// gro box-line / velocity variants, free-format xyz, 80-column pdb, DL_POLY
// levcfg 0/1/2). Expected values are computed from the printed tokens, so the
// comparison is exact up to a few ulp.
struct Exp {
  M3 box = M3::Zero();
  std::vector<V3> pos, vel, frc;  // frc in FILE units, see ffac
  bool hv = false, hf = false, has_step = false, has_box = true;
  long step = 0;
};
static bool nearx(double g, double e, double atol = 0) { return std::isfinite(g) && std::fabs(g - e) <= 64 * EPS * std::max(std::fabs(g), std::fabs(e)) + atol + 1e-300; }
static double tokd(const std::string &s) { return strtod(s.c_str(), nullptr); }
static std::string fmtd(const char *f, double v) { char b[64]; snprintf(b, sizeof b, f, v); return b; }

static bool read_generic(const std::string &file, int n, std::vector<Snap> &out, std::string &err) {
  try {
    Topology dst;
    dst.CreateResidue("RES");
    dst.RegisterBeadType("T");
    for (int i = 0; i < n; ++i) dst.CreateBead(Bead::spherical, "B", "T", 0, 1.0, 0.0);
    out = read_traj(file, dst);
    return true;
  } catch (std::exception &e) { err = e.what(); return false; }
}
static int first_bad(const std::vector<V3> &g, const std::vector<V3> &e, double atol, int &comp) {
  for (size_t i = 0; i < e.size(); ++i)
    for (int k = 0; k < 3; ++k)
      if (i >= g.size() || !nearx(g[i][k], e[i][k], atol)) { comp = k; return (int)i; }
  return -1;
}
// judge the frames read from a harness-written file. ffacs: accepted factors
// file force unit -> kJ/mol/nm
static void judge_exp(const std::string &fam, const std::string &poskey, const std::string &file, const J &desc, const std::vector<Exp> &exp,
                      const std::vector<Snap> &got, const std::vector<double> &ffacs) {
  auto W = [&]() { J w; w.raw("case", desc.str()).s("file", slurp(file, 3000)); return w; };
  judge(fam, "frame-count", got.size() == exp.size(), fam + "/frame-count", "number of frames read differs from the number in the file", W().i("in_file", (long long)exp.size()).i("read", (long long)got.size()));
  for (size_t f = 0; f < exp.size() && f < got.size(); ++f) {
    const Exp &E = exp[f];
    const Snap &G = got[f];
    int comp = 0, bad = first_bad(G.pos, E.pos, 0, comp);
    judge(fam, poskey.substr(poskey.find('/') + 1), bad < 0, poskey, "positions read from the file differ from value x unit factor",
          W().i("frame", (long long)f).i("bead", bad).i("component", comp).d("got_nm", bad >= 0 && bad < (int)G.pos.size() ? G.pos[bad][comp] : NAN).d("expected_nm", bad >= 0 ? E.pos[bad][comp] : NAN));
    if (E.hv) {
      bool all = true;
      for (char h : G.hv) all = all && h;
      int b2 = all ? first_bad(G.vel, E.vel, 0, comp) : 0;
      judge(fam, "velocities", all && b2 < 0, fam + "/velocities", all ? "velocities read from the file differ from value x unit factor" : "velocity columns are present but beads have no velocity",
            W().i("frame", (long long)f).i("bead", b2).i("component", comp).d("got", all && b2 >= 0 ? G.vel[b2][comp] : NAN).d("expected", b2 >= 0 ? E.vel[b2][comp] : NAN));
    } else {
      bool any = false;
      for (char h : G.hv) any = any || h;
      judge(fam, "no-velocities", !any, fam + "/spurious-velocities", "the file has no velocities but beads carry a velocity after reading", W().i("frame", (long long)f));
    }
    if (E.hf) {
      bool all = true;
      for (char h : G.hf) all = all && h;
      bool ok = all;
      double fct = NAN;
      if (all) {
        double sge = 0, see = 0;
        for (size_t i = 0; i < E.frc.size(); ++i) for (int k = 0; k < 3; ++k) { sge += G.frc[i][k] * E.frc[i][k]; see += E.frc[i][k] * E.frc[i][k]; }
        fct = see > 0 ? sge / see : ffacs[0];
        bool known = false;
        for (double a : ffacs) if (std::fabs(fct / a - 1) < 1e-6) known = true;
        ok = known;
        for (size_t i = 0; ok && i < E.frc.size(); ++i) for (int k = 0; k < 3; ++k) if (!nearx(G.frc[i][k], fct * E.frc[i][k], 1e-9 * std::fabs(fct))) ok = false;
      }
      judge(fam, "forces", ok, fam + "/forces", all ? "forces read from the file are not value x (one accepted) unit factor" : "force columns are present but beads have no force", W().i("frame", (long long)f).d("observed_factor", fct).vec("accepted_factors", ffacs));
    }
    if (E.has_box) {
      bool ok = true;
      for (int i = 0; i < 3; ++i) for (int j = 0; j < 3; ++j) if (!nearx(G.box(i, j), E.box(i, j))) ok = false;
      judge(fam, "box", ok, fam + "/box", "box read from the file differs from the cell in the file x unit factor", W().i("frame", (long long)f).vec("got_rowmajor", flat(G.box)).vec("expected_rowmajor", flat(E.box)));
    }
    if (E.has_step) judge(fam, "step", G.step == E.step, fam + "/step", "time step number differs from the file", W().i("frame", (long long)f).i("got", G.step).i("expected", E.step));
  }
}

// ---------------------------------------------------------- LAMMPS dump
static void dumpread_case(vfh::Rng &r, const std::string &base) {
  new_case();
  int n = g_minimal ? (int)r.range(1, 2) : (r.coin(0.7) ? (int)r.range(1, 12) : (int)r.range(13, 60));
  int nfr = g_minimal ? 1 : (int)r.range(1, 3);
  bool hv = r.coin(0.5), hf = r.coin(0.5);
  bool lo0 = g_minimal ? true : r.coin(0.65);
  struct At { std::string x[3], xu[3], xs[3], v[3], f[3]; int k[3]; int type; };
  struct Fr { std::string lo[3], hi[3]; long step; std::vector<At> at; };
  std::vector<Fr> frs;
  long step = r.range(0, 1000);
  for (int fi = 0; fi < nfr; ++fi) {
    Fr F;
    F.step = step; step += r.range(1, 500);
    double lo[3], L[3];
    for (int k = 0; k < 3; ++k) {
      F.lo[k] = lo0 ? "0" : fmtd("%.6f", r.uni(-60, 60));
      lo[k] = tokd(F.lo[k]);
      F.hi[k] = fmtd("%.6f", lo[k] + r.logu(5, 400));
      L[k] = tokd(F.hi[k]) - lo[k];
    }
    for (int i = 0; i < n; ++i) {
      At a;
      a.type = (int)r.range(1, 3);
      for (int k = 0; k < 3; ++k) {
        double f = r.uni(0, 1);
        int c = (int)r.range(0, 19);
        if (c == 0) f = -r.uni(0, 0.02);       // slightly outside the cell
        else if (c == 1) f = 1 + r.uni(0, 0.02);
        else if (c == 2) f = 0;
        a.xs[k] = fmtd("%.10f", f);
        double fs = tokd(a.xs[k]);
        a.x[k] = fmtd("%.8f", lo[k] + fs * L[k]);
        a.k[k] = (int)r.range(-2, 2);
        a.xu[k] = fmtd("%.8f", tokd(a.x[k]) + a.k[k] * L[k]);
        a.v[k] = fmtd("%.8f", r.normal() * 20);
        a.f[k] = r.coin() ? fmtd("%.8f", r.normal() * 30) : fmtd("%.6e", r.normal() * 30);
      }
      F.at.push_back(a);
    }
    frs.push_back(F);
  }
  static const char *CN[3][3] = {{"x", "y", "z"}, {"xu", "yu", "zu"}, {"xs", "ys", "zs"}};
  static const char *FL[3] = {"x", "xu", "xs"};
  static const char *KEY[3] = {"dump-reader/positions", "dump-reader/unwrapped-positions", "dump-reader/scaled-positions"};
  auto write = [&](const std::string &file, int fl, bool permuted, std::string &header) {
    std::vector<std::string> cols = {"id", "type", CN[fl][0], CN[fl][1], CN[fl][2]};
    if (hv) { cols.push_back("vx"); cols.push_back("vy"); cols.push_back("vz"); }
    if (hf) { cols.push_back("fx"); cols.push_back("fy"); cols.push_back("fz"); }
    std::vector<int> order(n);
    for (int i = 0; i < n; ++i) order[i] = i;
    if (permuted) {
      static const char *EX[] = {"mol", "q", "ix", "iy", "iz", "radius", "c_pe"};
      for (const char *e : EX) if (r.coin(0.4)) cols.push_back(e);
      for (size_t i = cols.size() - 1; i > 0; --i) std::swap(cols[i], cols[(size_t)r.range(0, (long)i)]);
      if (cols[0] == "id" && cols.size() > 1) std::swap(cols[0], cols[(size_t)r.range(1, (long)cols.size() - 1)]);
      for (int i = n - 1; i > 0; --i) std::swap(order[i], order[(int)r.range(0, i)]);
    }
    header = "ITEM: ATOMS";
    for (auto &c : cols) header += " " + c;
    std::ofstream o(file);
    for (auto &F : frs) {
      o << "ITEM: TIMESTEP\n" << F.step << "\nITEM: NUMBER OF ATOMS\n" << n << "\nITEM: BOX BOUNDS pp pp pp\n";
      for (int k = 0; k < 3; ++k) o << F.lo[k] << " " << F.hi[k] << "\n";
      o << header << "\n";
      for (int oi : order) {
        const At &a = F.at[oi];
        bool first = true;
        for (auto &c : cols) {
          std::string v;
          if (c == "id") v = std::to_string(oi + 1);
          else if (c == "type") v = std::to_string(a.type);
          else if (c == "vx") v = a.v[0]; else if (c == "vy") v = a.v[1]; else if (c == "vz") v = a.v[2];
          else if (c == "fx") v = a.f[0]; else if (c == "fy") v = a.f[1]; else if (c == "fz") v = a.f[2];
          else if (c == "mol") v = std::to_string(oi / 3 + 1);
          else if (c == "q") v = "-0.8476";
          else if (c == "ix" || c == "iy" || c == "iz") v = std::to_string((int)r.range(-2, 2));
          else if (c == "radius") v = "1.5";
          else if (c == "c_pe") v = "-12.25";
          else for (int k = 0; k < 3; ++k) if (c == CN[fl][k]) v = fl == 0 ? a.x[k] : fl == 1 ? a.xu[k] : a.xs[k];
          o << (first ? "" : " ") << v;
          first = false;
        }
        o << "\n";
      }
    }
  };
  std::vector<std::vector<Snap>> canon(3);
  std::vector<bool> canon_ok(3, false);
  for (int fl = 0; fl < 3; ++fl) {
    std::string fam = "dump-reader";
    std::vector<Exp> exp;
    for (auto &F : frs) {
      Exp E;
      E.hv = hv; E.hf = hf; E.has_step = true; E.step = F.step;
      for (int k = 0; k < 3; ++k) E.box(k, k) = (tokd(F.hi[k]) - tokd(F.lo[k])) * 0.1;
      for (auto &a : F.at) {
        V3 p, v, f;
        for (int k = 0; k < 3; ++k) {
          p[k] = fl == 0 ? tokd(a.x[k]) * 0.1 : fl == 1 ? tokd(a.xu[k]) * 0.1 : tokd(a.xs[k]) * E.box(k, k);
          v[k] = tokd(a.v[k]) * 0.1;
          f[k] = tokd(a.f[k]);
        }
        E.pos.push_back(p); E.vel.push_back(v); E.frc.push_back(f);
      }
      exp.push_back(E);
    }
    for (int perm = 0; perm < 2; ++perm) {
      std::string file = base + "_" + FL[fl] + (perm ? "_perm.dump" : ".dump"), header, err;
      write(file, fl, perm == 1, header);
      R.eval(std::string("dump-reader/") + FL[fl] + (perm ? "-permuted" : "-canonical"));
      J desc; desc.s("coordinate_flavour", FL[fl]).s("atoms_header", header).i("natoms", n).i("frames", nfr).b("bounds_start_at_zero", lo0);
      std::vector<Snap> got;
      bool ok = read_generic(file, n, got, err);
      judge(fam, "accepted", ok, "dump-reader/rejected", "LAMMPSDumpReader throws on a dump file in the official layout", J().raw("case", desc.str()).s("exception", err).s("file", slurp(file, 2500)));
      if (!ok) continue;
      if (perm == 0) {
        judge_exp(fam, KEY[fl], file, desc, exp, got, {41.84, 41.8679994});
        canon[fl] = got; canon_ok[fl] = true;
      } else if (canon_ok[fl]) {
        // same tokens, other column order / id position / atom order / extra columns: bit-identical result
        bool same = got.size() == canon[fl].size();
        for (size_t f = 0; same && f < got.size(); ++f) {
          const Snap &A = got[f], &B = canon[fl][f];
          if (!(A.box == B.box) || A.step != B.step) same = false;
          for (int i = 0; same && i < n; ++i)
            if (!(A.pos[i] == B.pos[i]) || (hv && !(A.vel[i] == B.vel[i])) || (hf && !(A.frc[i] == B.frc[i])) || A.hv[i] != B.hv[i] || A.hf[i] != B.hf[i]) same = false;
        }
        judge(fam, "column-order", same, "dump-reader/column-order", "the same atoms with shuffled columns (id not first, unknown extra columns) and shuffled atom order read differently",
              J().raw("case", desc.str()).s("file", slurp(file, 2500)));
      }
    }
  }
  // the three coordinate flavours describe the same configuration
  if (canon_ok[0] && canon_ok[1] && canon_ok[2]) {
    bool okU = true, okS = true, shiftS = true;
    for (size_t f = 0; f < frs.size() && f < canon[0].size(); ++f)
      for (int i = 0; i < n; ++i)
        for (int k = 0; k < 3; ++k) {
          double Lnm = (tokd(frs[f].hi[k]) - tokd(frs[f].lo[k])) * 0.1, lonm = tokd(frs[f].lo[k]) * 0.1;
          double px = canon[0][f].pos[i][k], pu = canon[1][f].pos[i][k], ps = canon[2][f].pos[i][k];
          double tol = 2e-9 + 64 * EPS * (std::fabs(px) + 3 * Lnm);
          if (!(std::fabs(pu - frs[f].at[i].k[k] * Lnm - px) <= tol)) okU = false;
          if (!(std::fabs(ps - px) <= tol)) okS = false;
          if (!(std::fabs(ps + lonm - px) <= tol)) shiftS = false;
        }
    J w; w.i("natoms", n).b("bounds_start_at_zero", lo0).s("file_x", slurp(base + "_x.dump", 1500)).s("file_xu", slurp(base + "_xu.dump", 1500)).s("file_xs", slurp(base + "_xs.dump", 1500));
    judge("dump-reader", "flavour-consistency(xu)", okU, "dump-reader/flavour-consistency-unwrapped", "x and xu columns of the same configuration do not differ by whole box edges after reading", w);
    if (lo0) judge("dump-reader", "flavour-consistency(xs)", okS, "dump-reader/flavour-consistency-scaled", "x and xs columns of the same configuration give different positions", w);
    else {
      // xlo != 0: LAMMPS defines xs = (x - xlo)/(xhi - xlo). Not judged (the statement is about round trips), observed only
      if (shiftS) R.counter("dump-reader/xlo!=0: xs path yields x - xlo, i.e. is shifted by -xlo against the x path (observed, not judged)");
      else if (okS) R.counter("dump-reader/xlo!=0: xs path consistent with x path (observed)");
      else R.counter("dump-reader/xlo!=0: xs path neither x nor x - xlo (observed, not judged)");
    }
  }
  // topology mode on the canonical x file
  if (g_rt++ % 4 == 0) {
    std::string file = base + "_x.dump";
    R.eval("dump-reader/as-topology");
    Topology t2;
    bool ok = true;
    std::string err;
    try { Quiet q; TopReaderFactory().Create(file)->ReadTopology(file, t2); } catch (std::exception &e) { ok = false; err = e.what(); }
    bool good = ok && t2.BeadCount() == n;
    for (int i = 0; good && i < n; ++i) {
      if (t2.getBead(i)->getType() != std::to_string(frs[0].at[i].type)) good = false;
      for (int k = 0; k < 3; ++k) if (!nearx(t2.getBead(i)->getPos()[k], tokd(frs[0].at[i].x[k]) * 0.1)) good = false;
    }
    judge("dump-reader", "topology", good, "dump-reader/topology", "dump file read as topology: bead count / type column / positions differ from the file", J().s("exception", err).s("file", slurp(file, 2000)));
  }
  uint64_t h = vfh::hmix(vfh::hmix(41, n), nfr);
  h = vfh::hstr(h, frs[0].at[0].xs[0] + frs[0].hi[0]);
  R.nontrivial(h);
  if (R.want_sample() && n == 1) R.sample(J().s("dump_reader_case_xs_file", slurp(base + "_xs_perm.dump", 800)));
}

// ------------------------------------------------- gro / xyz / pdb / DL_POLY
static void groread_case(vfh::Rng &r, const std::string &file) {
  new_case();
  int n = g_minimal ? 1 : (int)r.range(1, 20), nfr = g_minimal ? 1 : (int)r.range(1, 3);
  bool hv = r.coin(0.5), box9 = r.coin(0.5);
  int prec = (!g_minimal && r.coin(0.2)) ? (int)r.range(4, 6) : 3;  // 3 = standard; others: observed only
  std::vector<Exp> exp;
  std::ostringstream o;
  char b[300];
  for (int f = 0; f < nfr; ++f) {
    Exp E; E.hv = hv;
    o << "harness written gro, t= " << f << ".0\n" << fmtd("%5.0f", (double)n) << "\n";
    for (int i = 0; i < n; ++i) {
      std::string x[3], v[3];
      std::string pf = "%" + std::to_string(prec + 5) + "." + std::to_string(prec) + "f", vf = "%" + std::to_string(prec + 5) + "." + std::to_string(prec + 1) + "f";
      V3 p, vv;
      for (int k = 0; k < 3; ++k) {
        // a third of the values use the full field width (no leading blank)
        x[k] = fmtd(pf.c_str(), r.coin(0.33) ? (r.coin() ? -r.uni(100, 999) : r.uni(1000, 9999)) : r.uni(-90, 900));
        v[k] = fmtd(vf.c_str(), r.coin(0.33) ? (r.coin() ? -r.uni(10, 99) : r.uni(100, 999)) : r.normal() * 3);
        p[k] = tokd(x[k]); vv[k] = tokd(v[k]);
      }
      snprintf(b, sizeof b, "%5d%-5s%5s%5d", i / 3 + 1, "RES", ("A" + std::to_string(i % 7)).c_str(), i + 1);
      o << b << x[0] << x[1] << x[2];
      if (hv) o << v[0] << v[1] << v[2];
      o << "\n";
      E.pos.push_back(p); E.vel.push_back(vv);
    }
    std::string bl;
    for (int k = 0; k < 3; ++k) { std::string t = fmtd("%10.5f", r.logu(2, 90)); E.box(k, k) = tokd(t); bl += t; }
    if (box9) {
      const int I[6] = {1, 2, 0, 2, 0, 1}, Jc[6] = {0, 0, 1, 1, 2, 2};  // v1(y) v1(z) v2(x) v2(z) v3(x) v3(y)
      for (int q = 0; q < 6; ++q) {
        bool up = I[q] < Jc[q];
        std::string t = fmtd("%10.5f", up ? r.uni(-0.5, 0.5) * E.box(I[q], I[q]) : 0.0);
        E.box(I[q], Jc[q]) = tokd(t); bl += t;
      }
    }
    o << bl << "\n";
    exp.push_back(E);
  }
  { std::ofstream of(file); of << o.str(); }
  J desc; desc.i("natoms", n).i("frames", nfr).b("velocity_columns", hv).b("nine_number_box", box9).i("decimals", prec);
  std::vector<Snap> got; std::string err;
  bool ok = read_generic(file, n, got, err);
  if (prec != 3) {
    // the gro format allows any precision (the column width follows from the distance of the decimal points);
    // VOTCA's writer never produces it: observed, not judged
    bool good = ok && got.size() == exp.size();
    for (size_t f = 0; good && f < exp.size(); ++f) { int c; if (first_bad(got[f].pos, exp[f].pos, 0, c) >= 0) good = false; }
    R.eval("gro-reader/other-precision(observed)");
    R.counter(std::string("gro-reader/") + std::to_string(prec) + "-decimal columns: " + (!ok ? "rejected" : good ? "read correctly" : "silently misread") + " (observed, not judged)");
    return;
  }
  R.eval(std::string("gro-reader/") + (hv ? "vel" : "novel") + (box9 ? "-box9" : "-box3"));
  R.nontrivial(vfh::hstr(43, o.str().substr(0, 200)));
  judge("gro-reader", "accepted", ok, "gro-reader/rejected", "GROReader throws on a valid gro file", J().raw("case", desc.str()).s("exception", err).s("file", slurp(file, 2000)));
  if (ok) judge_exp("gro-reader", "gro-reader/positions", file, desc, exp, got, {1.0});
}

static void xyzread_case(vfh::Rng &r, const std::string &file) {
  new_case();
  static const char *EL[] = {"C", "H", "O", "N", "Cl", "S", "Na", "Fe"};
  int n = g_minimal ? 1 : (int)r.range(1, 20), nfr = g_minimal ? 1 : (int)r.range(1, 3);
  bool tabs = !g_minimal && r.coin(0.15);
  std::vector<Exp> exp;
  std::vector<std::string> names;
  std::ostringstream o;
  auto sp = [&](int lo) { std::string s((size_t)r.range(lo, 4), ' '); if (tabs && r.coin()) s = "\t"; return s; };
  for (int f = 0; f < nfr; ++f) {
    Exp E; E.has_box = false;
    o << std::string((size_t)r.range(0, 2), ' ') << n << "\n" << "comment line " << f << " with 1 2 3 numbers\n";
    for (int i = 0; i < n; ++i) {
      std::string el = EL[r.range(0, 7)];
      if (f == 0) names.push_back(el);
      V3 p;
      o << sp(0) << (f == 0 ? el : names[i]);
      for (int k = 0; k < 3; ++k) {
        int c = (int)r.range(0, 2);
        std::string t = c == 0 ? fmtd("%.6f", r.uni(-300, 300)) : c == 1 ? fmtd("%.8e", r.uni(-300, 300)) : fmtd("%g", (double)r.range(-50, 50));
        p[k] = tokd(t) * 0.1;
        o << sp(1) << t;
      }
      o << sp(0) << "\n";
      E.pos.push_back(p);
    }
    exp.push_back(E);
  }
  { std::ofstream of(file); of << o.str(); }
  J desc; desc.i("natoms", n).i("frames", nfr).b("tab_separated", tabs);
  std::vector<Snap> got; std::string err;
  bool ok = read_generic(file, n, got, err);
  if (tabs) {  // tab separated atom lines: common, but nothing VOTCA writes: observed only
    R.eval("xyz-reader/tabs(observed)");
    R.counter(std::string("xyz-reader/tab separated atom lines: ") + (ok ? "accepted" : "rejected") + " (observed, not judged)");
    return;
  }
  R.eval("xyz-reader/free-format");
  R.nontrivial(vfh::hstr(47, o.str().substr(0, 200)));
  judge("xyz-reader", "accepted", ok, "xyz-reader/rejected", "XYZReader throws on a valid free-format xyz file", J().raw("case", desc.str()).s("exception", err).s("file", slurp(file, 2000)));
  if (ok) judge_exp("xyz-reader", "xyz-reader/positions", file, desc, exp, got, {1.0});
  // as topology: element-only names
  Topology t2; bool ok2 = true; std::string e2;
  try { Quiet q; TopReaderFactory().Create(file)->ReadTopology(file, t2); } catch (std::exception &e) { ok2 = false; e2 = e.what(); }
  bool good = ok2 && t2.BeadCount() == n;
  for (int i = 0; good && i < n; ++i) {
    if (t2.getBead(i)->getType() != names[i] || t2.getBead(i)->getName() != names[i] + std::to_string(i)) good = false;
    for (int k = 0; k < 3; ++k) if (!nearx(t2.getBead(i)->getPos()[k], exp[0].pos[i][k])) good = false;
  }
  judge("xyz-reader", "topology", good, "xyz-reader/topology", "xyz file read as topology: bead count / element names / positions differ from the file", J().s("exception", e2).s("file", slurp(file, 1500)));
}

static void pdbread_case(vfh::Rng &r, const std::string &file) {
  new_case();
  static const char *EL[] = {"C", "H", "O", "N", "S"};
  int n = g_minimal ? 1 : (int)r.range(1, 20), nfr = g_minimal ? 1 : (int)r.range(1, 3);
  bool cryst = r.coin(0.6), models = nfr > 1 || r.coin(0.5);
  std::vector<Exp> exp;
  std::vector<std::string> names, els;
  std::ostringstream o;
  char b[300];
  for (int f = 0; f < nfr; ++f) {
    Exp E;
    if (cryst) {
      double a[3];
      for (int k = 0; k < 3; ++k) a[k] = r.logu(5, 900);
      snprintf(b, sizeof b, "CRYST1%9.3f%9.3f%9.3f%7.2f%7.2f%7.2f P 1           1\n", a[0], a[1], a[2], 90.0, 90.0, 90.0);
      o << b;
      for (int k = 0; k < 3; ++k) E.box(k, k) = tokd(std::string(b).substr(6 + 9 * k, 9)) / 10.0;
    }
    if (models) { snprintf(b, sizeof b, "MODEL     %4d\n", f + 1); o << b; }
    for (int i = 0; i < n; ++i) {
      if (f == 0) { els.push_back(EL[r.range(0, 4)]); names.push_back(els.back()); }
      double x[3];
      for (int k = 0; k < 3; ++k) x[k] = r.uni(-900, 9000);
      snprintf(b, sizeof b, "%-6s%5d %-4s %-3s %1s%4d    %8.3f%8.3f%8.3f%6.2f%6.2f          %2s  \n", r.coin(0.3) ? "HETATM" : "ATOM", i + 1, names[i].c_str(), "MOL", "A", i / 4 + 1,
               x[0], x[1], x[2], 1.0, 0.0, els[i].c_str());
      o << b;
      V3 p;
      for (int k = 0; k < 3; ++k) p[k] = tokd(std::string(b).substr(30 + 8 * k, 8)) / 10.0;
      E.pos.push_back(p);
    }
    o << (models ? "ENDMDL\n" : "END\n");
    exp.push_back(E);
  }
  { std::ofstream of(file); of << o.str(); }
  R.eval(std::string("pdb-reader/80-column") + (cryst ? "-cryst1" : ""));
  R.nontrivial(vfh::hstr(53, o.str().substr(0, 300)));
  J desc; desc.i("natoms", n).i("frames", nfr).b("cryst1", cryst).b("model_records", models);
  std::vector<Snap> got; std::string err;
  bool ok = read_generic(file, n, got, err);
  judge("pdb-reader", "accepted", ok, "pdb-reader/rejected", "PDBReader throws on a valid 80-column pdb file", J().raw("case", desc.str()).s("exception", err).s("file", slurp(file, 2000)));
  if (ok) {
    // pdb reader: x/10 (division), so allow the last-bit difference to value*0.1
    judge_exp("pdb-reader", "pdb-reader/positions", file, desc, exp, got, {1.0});
  }
  Topology t2; bool ok2 = true; std::string e2;
  try { Quiet q; TopReaderFactory().Create(file)->ReadTopology(file, t2); } catch (std::exception &e) { ok2 = false; e2 = e.what(); }
  bool good = ok2 && t2.BeadCount() == n;
  for (int i = 0; good && i < n; ++i) {
    Bead *bd = t2.getBead(i);
    if (bd->getName() != names[i] || bd->getResnr() != i / 4 || t2.getResidue(bd->getResnr()).getName() != "MOL") good = false;
    for (int k = 0; k < 3; ++k) if (!nearx(bd->getPos()[k], exp[0].pos[i][k])) good = false;
  }
  judge("pdb-reader", "topology", good, "pdb-reader/topology", "pdb file read as topology: bead count / names / residues / positions differ from the file", J().s("exception", e2).s("file", slurp(file, 1500)));
}

static void dlpread_case(vfh::Rng &r, const std::string &base) {
  new_case();
  bool config = r.coin(0.4);
  int n = g_minimal ? 1 : (int)r.range(1, 15), nfr = config ? 1 : (g_minimal ? 1 : (int)r.range(1, 3));
  int lev = (int)r.range(0, 2), imcon = (int)r.range(1, 3);
  std::string file = base + (config ? ".dlpc" : ".dlph");
  std::vector<Exp> exp;
  std::ostringstream o;
  char b[300];
  o << "harness written DL_POLY " << (config ? "CONFIG" : "HISTORY") << "\n";
  snprintf(b, sizeof b, "%10d%10d%10d\n", lev, imcon, n);
  o << b;
  long step = r.range(1, 5000);
  for (int f = 0; f < nfr; ++f) {
    Exp E; E.hv = lev >= 1; E.hf = lev >= 2; E.has_step = !config; E.step = step;
    if (!config) { snprintf(b, sizeof b, "timestep%10ld%10d%10d%10d%12.6f%12.6f\n", step, n, lev, imcon, 0.002, 0.002 * (double)step); o << b; }
    step += r.range(1, 300);
    double c[3][3] = {{0}};
    for (int k = 0; k < 3; ++k) c[k][k] = r.logu(5, 400);
    if (imcon == 3) { c[1][0] = r.uni(-0.5, 0.5) * c[0][0]; c[2][0] = r.uni(-0.5, 0.5) * c[0][0]; c[2][1] = r.uni(-0.5, 0.5) * c[1][1]; }
    for (int v = 0; v < 3; ++v) {  // one cell vector per line
      snprintf(b, sizeof b, "%20.10f%20.10f%20.10f\n", c[v][0], c[v][1], c[v][2]);
      o << b;
      for (int k = 0; k < 3; ++k) E.box(k, v) = tokd(std::string(b).substr(20 * k, 20)) * 0.1;
    }
    for (int i = 0; i < n; ++i) {
      if (config) snprintf(b, sizeof b, "%-8s%10d\n", "OW", i + 1); else snprintf(b, sizeof b, "%-8s%10d%12.6f%12.6f%12.6f\n", "OW", i + 1, 15.9994, -0.8476, 0.0);
      o << b;
      for (int q = 0; q <= lev; ++q) {
        double sc = q == 0 ? 300 : q == 1 ? 20 : 5000;
        snprintf(b, sizeof b, "%20.10f%20.10f%20.10f\n", r.uni(-1, 1) * sc, r.uni(-1, 1) * sc, r.uni(-1, 1) * sc);
        o << b;
        V3 v;
        for (int k = 0; k < 3; ++k) v[k] = tokd(std::string(b).substr(20 * k, 20));
        if (q == 0) E.pos.push_back(v * 0.1); else if (q == 1) E.vel.push_back(v * 0.1); else E.frc.push_back(v);
      }
    }
    exp.push_back(E);
  }
  { std::ofstream of(file); of << o.str(); }
  R.eval(std::string("dlpoly-reader/") + (config ? "CONFIG" : "HISTORY") + "-levcfg" + std::to_string(lev));
  R.nontrivial(vfh::hstr(59, o.str().substr(0, 400)));
  J desc; desc.s("kind", config ? "CONFIG" : "HISTORY").i("natoms", n).i("frames", nfr).i("levcfg", lev).i("imcon", imcon);
  std::vector<Snap> got; std::string err;
  bool ok = read_generic(file, n, got, err);
  judge("dlpoly-reader", "accepted", ok, "dlpoly-reader/rejected", "DLPOLYTrajectoryReader throws on a valid CONFIG/HISTORY file", J().raw("case", desc.str()).s("exception", err).s("file", slurp(file, 2500)));
  if (ok) judge_exp("dlpoly-reader", "dlpoly-reader/positions", file, desc, exp, got, {0.1});
}


// ===================================================== objects used twice
// One writer object for several files, append mode, one reader object for
// several files, NextFrame after the end, FirstFrame twice. The shared judging
// code runs under g_scenario, so keys read <fmt>/<scenario>/<aspect>.
static void set_n(CaseD &c, int n) {
  int o = c.n;
  auto cyc = [&](auto &v) { auto w = v; w.resize((size_t)n); for (int i = 0; i < n; ++i) w[(size_t)i] = v[(size_t)(i % o)]; v = w; };
  cyc(c.name); cyc(c.type); cyc(c.resnr); cyc(c.mass); cyc(c.q);
  for (auto &F : c.fr) { cyc(F.pos); cyc(F.vel); cyc(F.frc); }
  c.n = n;
}
// a case that triggers none of the recorded format limits (dump/pdb:
// rectangular boxes only; xyz: narrow coordinates; dlpoly: rounded time step)
static CaseD reuse_gen(vfh::Rng &r, const std::string &fmt, int nfr_min, int n = -1) {
  CaseD c;
  for (int tries = 0; tries < 50; ++tries) {
    c = gen_case(r, fmt == "dlpoly" ? "dump" : fmt, 40, 5, g_minimal ? (int)r.range(0, 3) : -1);
    if (c.tag.empty() && (int)c.fr.size() >= nfr_min) break;
    if (c.tag.empty() && tries > 20) { while ((int)c.fr.size() < nfr_min) { c.fr.push_back(c.fr[0]); for (auto &p : c.fr.back().pos) p += V3(0.013, 0.021, 0.034) * (double)c.fr.size(); c.fr.back().step = c.fr[c.fr.size() - 2].step + 7; } break; }
  }
  while ((int)c.fr.size() < nfr_min) { c.fr.push_back(c.fr[0]); for (auto &p : c.fr.back().pos) p += V3(0.013, 0.021, 0.034) * (double)c.fr.size(); c.fr.back().step = c.fr[c.fr.size() - 2].step + 7; c.fr.back().time = c.dt * (double)c.fr.back().step; }
  c.tag.clear();
  if (fmt == "dump" || fmt == "pdb" || fmt == "dlpoly") {
    int kind = fmt == "dlpoly" ? (c.boxkind == 0 ? 1 : c.boxkind) : 1;
    c.boxkind = kind;
    for (auto &F : c.fr) { F.kind = -1; F.box = rbox(r, kind, 400); if (fmt == "dlpoly") { F.hv = F.hf = -1; } }
  }
  if (fmt == "dlpoly") { c.fmt = "dlph"; if (c.frc) c.vel = true; for (auto &F : c.fr) if (F.step == 0) F.step = 1; }
  if (n > 0) set_n(c, n);
  return c;
}
// DL_POLY HISTORY in the official layout from a case (the library writer can
// only be used once per process)
static void write_dlph_ref(const std::string &file, const CaseD &c) {
  std::ofstream o(file);
  char b[400];
  int lev = c.vel ? (c.frc ? 2 : 1) : 0, imcon = c.boxkind == 2 ? 3 : 2;
  o << "harness written HISTORY\n";
  snprintf(b, sizeof b, "%10d%10d%10d\n", lev, imcon, c.n); o << b;
  for (auto &F : c.fr) {
    snprintf(b, sizeof b, "timestep%10ld%10d%10d%10d%12.6f%12.6f\n", F.step, c.n, lev, imcon, 0.002, 0.002 * (double)F.step); o << b;
    for (int v = 0; v < 3; ++v) { snprintf(b, sizeof b, "%20.12g%20.12g%20.12g\n", F.box(0, v) * 10, F.box(1, v) * 10, F.box(2, v) * 10); o << b; }
    for (int i = 0; i < c.n; ++i) {
      snprintf(b, sizeof b, "%-8s%10d%12.6f%12.6f%12.6f\n", c.type[i].substr(0, 8).c_str(), i + 1, c.mass[i], c.q[i], 0.0); o << b;
      snprintf(b, sizeof b, "%20.12g%20.12g%20.12g\n", F.pos[i].x() * 10, F.pos[i].y() * 10, F.pos[i].z() * 10); o << b;
      if (lev >= 1) { snprintf(b, sizeof b, "%20.12g%20.12g%20.12g\n", F.vel[i].x() * 10, F.vel[i].y() * 10, F.vel[i].z() * 10); o << b; }
      if (lev >= 2) { snprintf(b, sizeof b, "%20.12g%20.12g%20.12g\n", F.frc[i].x() * 10, F.frc[i].y() * 10, F.frc[i].z() * 10); o << b; }
    }
  }
}
static void write_file_fresh(const std::string &file, const CaseD &c, const std::string &fmt) {
  if (fmt == "dlpoly") write_dlph_ref(file, c); else write_case(file, c);
}
static std::string ext_of(const std::string &fmt) { return fmt == "dlpoly" ? "dlph" : fmt; }

// read a whole file with a FRESH reader and judge it against the case
static void read_and_judge(const CaseD &c, const std::string &file, const std::string &fmt) {
  std::vector<Snap> got;
  std::string msg;
  bool ok = true;
  try { Topology dst; build_top(dst, c); got = read_traj(file, dst); } catch (std::exception &e) { ok = false; msg = e.what(); }
  judge(fmt, "reread", ok, fmt + "/reread-rejected", "the matching reader throws on the file", case_json(c, 2).s("exception", msg).s("file_head", slurp(file, 1500)));
  if (ok) judge_frames(c, fmt, got, file, false, "reader");
}

static void writer_reuse_case(vfh::Rng &r, const std::string &fmt, const std::string &base) {
  new_case();
  CaseD A = reuse_gen(r, fmt, 1), B = reuse_gen(r, fmt, 1);
  if (r.coin()) set_n(B, A.n);  // same or different bead count
  std::string fa = base + "_wa." + fmt, fb = base + "_wb." + fmt, fc = base + "_wc." + fmt;
  R.eval(fmt + "/writer-reuse");
  R.nontrivial(vfh::hmix(case_hash(A), case_hash(B)));
  g_scenario = "writer-reuse";
  try {
    Quiet q;
    std::unique_ptr<TrajectoryWriter> w = TrjWriterFactory().Create(fa);
    Topology ta, tb;
    build_top(ta, A); build_top(tb, B);
    w->Open(fa);
    for (auto &F : A.fr) { load_frame(ta, A, F); w->Write(&ta); }
    w->Close();
    w->Open(fb);
    for (auto &F : B.fr) { load_frame(tb, B, F); w->Write(&tb); }
    w->Close();
    w->Open(fc);  // and the first one again, into a third file
    for (auto &F : A.fr) { load_frame(ta, A, F); w->Write(&ta); }
    w->Close();
  } catch (std::exception &e) {
    judge(fmt, "write", false, fmt + "/write-threw", "a writer object used for a second file throws", case_json(A, 1).s("exception", e.what()));
    g_scenario.clear();
    return;
  }
  read_and_judge(A, fa, fmt);
  read_and_judge(B, fb, fmt);
  read_and_judge(A, fc, fmt);
  // the third file must be byte-identical to the first (same frames, same object)
  judge(fmt, "identical-files", slurp(fa, 1 << 22) == slurp(fc, 1 << 22), fmt + "/files-differ",
        "the same frames written by one writer object into its first and its third file give different files (state leaks between files)",
        case_json(A, 1).s("first_file_head", slurp(fa, 800)).s("third_file_head", slurp(fc, 800)));
  g_scenario.clear();
}

static void append_case(vfh::Rng &r, const std::string &fmt, const std::string &base) {
  new_case();
  CaseD A = reuse_gen(r, fmt, 4);
  size_t h = (size_t)r.range(1, (long)A.fr.size() - 1);
  std::string f = base + "_ap." + fmt;
  R.eval(fmt + "/append");
  R.nontrivial(vfh::hmix(case_hash(A), 977 + h));
  g_scenario = "append";
  try {
    Quiet q;
    std::unique_ptr<TrajectoryWriter> w = TrjWriterFactory().Create(f);
    Topology ta;
    build_top(ta, A);
    w->Open(f, false);
    for (size_t k = 0; k < h; ++k) { load_frame(ta, A, A.fr[k]); w->Write(&ta); }
    w->Close();
    if (r.coin()) w = TrjWriterFactory().Create(f);  // same or a new object
    w->Open(f, true);
    for (size_t k = h; k < A.fr.size(); ++k) { load_frame(ta, A, A.fr[k]); w->Write(&ta); }
    w->Close();
  } catch (std::exception &e) {
    judge(fmt, "write", false, fmt + "/write-threw", "writing in append mode throws", case_json(A, 1).s("exception", e.what()));
    g_scenario.clear();
    return;
  }
  read_and_judge(A, f, fmt);
  g_scenario.clear();
}

static void reader_reuse_case(vfh::Rng &r, const std::string &fmt, const std::string &base) {
  new_case();
  CaseD A = reuse_gen(r, fmt, 1), B = reuse_gen(r, fmt, 1, A.n), C = reuse_gen(r, fmt, 1);
  if (C.n == A.n) set_n(C, A.n + 1 + (int)r.range(0, 2));
  std::string e = ext_of(fmt), fa = base + "_ra." + e, fb = base + "_rb." + e, fc = base + "_rc." + e;
  R.eval(fmt + "/reader-reuse");
  R.nontrivial(vfh::hmix(vfh::hmix(case_hash(A), case_hash(B)), case_hash(C)));
  g_scenario = "reader-reuse";
  try { write_file_fresh(fa, A, fmt); write_file_fresh(fb, B, fmt); write_file_fresh(fc, C, fmt); } catch (std::exception &ex) {
    R.inconclusive(std::string("reader-reuse: cannot write input: ") + ex.what());
    g_scenario.clear();
    return;
  }
  std::unique_ptr<TrajectoryReader> rd;
  { Quiet q; rd = TrjReaderFactory().Create(fa); }
  Topology dst, dstC;
  build_top(dst, A); build_top(dstC, C);
  auto readall = [&](const std::string &file, Topology &t, std::vector<Snap> &out, std::string &msg) {
    Quiet q;
    try {
      rd->Open(file);
      rd->FirstFrame(t);
      out.push_back(snap(t));
      while (out.size() < 50 && rd->NextFrame(t)) out.push_back(snap(t));
      return true;
    } catch (std::exception &ex) { msg = ex.what(); return false; }
  };
  auto W = [&]() { J w; w.raw("first_file_case", case_json(A, 1).str()).i("beads_first", A.n).i("frames_first", (long long)A.fr.size()).i("frames_second", (long long)B.fr.size()).i("beads_third", C.n); return w; };
  struct Step { const CaseD *c; const std::string *f; Topology *t; const char *name; };
  Step steps[3] = {{&A, &fa, &dst, "first file"}, {&B, &fb, &dst, "second file (same bead count)"}, {&C, &fc, &dstC, "third file (other bead count, own topology)"}};
  for (auto &st : steps) {
    std::vector<Snap> got;
    std::string msg;
    bool ok = readall(*st.f, *st.t, got, msg);
    judge(fmt, "reread", ok, fmt + "/reread-rejected", std::string("one reader object used for several files throws on the ") + st.name, W().s("exception", msg).s("file_head", slurp(*st.f, 1200)));
    if (ok) {
      judge_frames(*st.c, fmt, got, *st.f, false, "reader");
      // NextFrame after the end: false, again and again
      bool fine = true;
      std::string m2;
      try { Quiet q; for (int k = 0; k < 3; ++k) if (rd->NextFrame(*st.t)) fine = false; } catch (std::exception &ex) { fine = false; m2 = ex.what(); }
      judge(fmt, "nextframe-after-end", fine, fmt + "/nextframe-after-end", "NextFrame called after the last frame does not keep returning false", W().s("file", st.name).s("exception", m2));
    }
    { Quiet q; rd->Close(); }
  }
  // the third file with the topology of the first: atom count mismatch must be reported
  {
    bool threw = false;
    std::string msg = "no exception";
    try { Quiet q; rd->Open(fc); rd->FirstFrame(dst); while (rd->NextFrame(dst)) {} } catch (std::exception &ex) { threw = true; msg = ex.what(); }
    judge(fmt, "atomcount", threw, fmt + "/atomcount-no-error", "a reused reader accepts a file whose atom count differs from the topology", W().s("reader_said", msg));
    { Quiet q; try { rd->Close(); } catch (...) {} }
  }
  // FirstFrame twice: the stream readers do not rewind. Whatever the reader does, the
  // topology must afterwards hold a frame of the file, or the call must throw
  {
    Topology d2;
    build_top(d2, A);
    std::string outcome;
    try {
      Quiet q;
      rd->Open(fa);
      rd->FirstFrame(d2);
      bool more = rd->FirstFrame(d2);
      Snap s2 = snap(d2);
      Tol T = tol_of(fmt, false);
      int which = -1;
      for (size_t f = 0; f < A.fr.size(); ++f) if (!cmp_vecs(s2.pos, A.fr[f].pos, T.pos_abs, T.sig, T.scale).bad()) which = (int)f;
      outcome = which == 0 ? "frame 1 again" : which == 1 ? "frame 2" : which > 1 ? "a later frame" : (A.fr.size() == 1 && !more ? "end of file" : "NO FRAME OF THE FILE");
      if (which < 0 && A.fr.size() == 1) { which = cmp_vecs(s2.pos, A.fr[0].pos, T.pos_abs, T.sig, T.scale).bad() ? -1 : 0; }
      judge(fmt, "firstframe-twice", outcome != "NO FRAME OF THE FILE", fmt + "/firstframe-twice", "after FirstFrame was called twice the topology holds data that is no frame of the file", W().s("outcome", outcome));
    } catch (std::exception &ex) { outcome = "exception"; judge(fmt, "firstframe-twice", true, "", "", J()); }
    R.counter(fmt + "/FirstFrame twice -> " + outcome + " (observed)");
    { Quiet q; try { rd->Close(); } catch (...) {} }
  }
  g_scenario.clear();
}

// ------------------------------------------------------- Table used twice
static void table_reuse_case(vfh::Rng &r, const std::string &base) {
  using votca::tools::Table;
  new_case();
  auto gen = [&](int n, std::vector<double> &x, std::vector<double> &y, std::string &fl) {
    x.resize(n); y.resize(n); fl.resize(n);
    double x0 = r.uni(-5, 5);
    for (int i = 0; i < n; ++i) { x[i] = x0 + 0.01 * i + r.uni(0, 0.005); y[i] = rval(r); fl[i] = "iou"[r.range(0, 2)]; }
  };
  auto fill = [&](Table &t, const std::vector<double> &x, const std::vector<double> &y, const std::string &fl) {
    t.resize((Index)x.size());
    for (size_t i = 0; i < x.size(); ++i) t.set((Index)i, x[i], y[i], fl[i]);
  };
  auto same = [&](Table &t, const std::vector<double> &x, const std::vector<double> &y, const std::string &fl, std::string &why) {
    if ((size_t)t.size() != x.size()) { why = "rows " + std::to_string(t.size()) + " != " + std::to_string(x.size()); return false; }
    for (size_t i = 0; i < x.size(); ++i) {
      if (!(std::fabs(t.x((Index)i) - x[i]) <= tol_sig(x[i], 10)) || !(std::fabs(t.y((Index)i) - y[i]) <= tol_sig(y[i], 10))) { why = "value in row " + std::to_string(i); return false; }
      if (t.flags((Index)i) != fl[i]) { why = "flag in row " + std::to_string(i); return false; }
    }
    return true;
  };
  int n1 = g_minimal ? 2 : (int)r.range(1, 60), n2 = g_minimal ? 3 : (int)r.range(1, 60);
  if (n2 == n1) ++n2;
  std::vector<double> x1, y1, x2, y2;
  std::string f1, f2;
  gen(n1, x1, y1, f1); gen(n2, x2, y2, f2);
  std::string p1 = base + "_t1.tab", p2 = base + "_t2.tab", p3 = base + "_t3.tab";
  R.eval("table/reuse");
  R.nontrivial(vfh::hdouble(vfh::hdouble(vfh::hmix(61, n1 * 1000 + n2), y1[0]), y2[0]));
  auto W = [&]() { J w; w.i("rows_first", n1).i("rows_second", n2).vec("x1", x1).vec("y1", y1).s("flags1", f1).vec("x2", x2).vec("y2", y2).s("flags2", f2); return w; };
  try {
    Quiet q;
    Table a, b;
    fill(a, x1, y1, f1); a.Save(p1);
    fill(b, x2, y2, f2); b.Save(p2);
    Table u;
    std::string why;
    u.Load(p1);
    bool ok1 = same(u, x1, y1, f1, why);
    judge("table", "reuse/first-load", ok1, "table/reuse/first-load", "Table::Load into a fresh table differs from the saved table", W().s("difference", why));
    u.Load(p2);  // shorter or longer, other flags
    bool ok2 = same(u, x2, y2, f2, why);
    judge("table", "reuse/second-load", ok2, "table/reuse/second-load", "a Table object loaded a second time keeps data of the first file / has the wrong size", W().s("difference", why));
    // modify, grow, save, load
    std::vector<double> x3 = x2, y3 = y2;
    std::string f3 = f2;
    int extra = (int)r.range(1, 5);
    for (int k = 0; k < extra; ++k) { x3.push_back(x3.back() + 0.01); y3.push_back(rval(r)); f3.push_back("iou"[r.range(0, 2)]); }
    y3[0] = rval(r); f3[0] = f3[0] == 'i' ? 'o' : 'i';
    u.resize((Index)x3.size());
    for (size_t i = 0; i < x3.size(); ++i) u.set((Index)i, x3[i], y3[i], f3[i]);
    u.Save(p3);
    Table v;
    v.Load(p3);
    judge("table", "reuse/save-after-modify", same(v, x3, y3, f3, why), "table/reuse/save-after-modify", "a loaded, modified and resized Table is not saved as it is in memory", W().s("difference", why));
    // resize, then load a file of another length
    u.resize((Index)r.range(0, 80));
    u.Load(p1);
    judge("table", "reuse/resize-then-load", same(u, x1, y1, f1, why), "table/reuse/resize-then-load", "Table::Load after resize() does not yield exactly the file", W().s("difference", why));
  } catch (std::exception &e) {
    judge("table", "reuse/threw", false, "table/reuse/threw", "Table Save/Load sequence on one object throws", W().s("exception", e.what()));
  }
}
// table files as other programs / editors write them
static void table_text_case(vfh::Rng &r, const std::string &file) {
  using votca::tools::Table;
  new_case();
  int n = g_minimal ? 2 : (int)r.range(1, 40), ncol = (int)r.range(2, 4);
  bool crlf = r.coin(0.3), tabs = r.coin(0.3), trail = r.coin(0.3), comments = r.coin(0.5);
  std::vector<double> x(n), y(n);
  std::string fl(n, 'i');
  std::ostringstream o;
  std::string eol = crlf ? "\r\n" : "\n", sep = tabs ? "\t" : " ";
  if (comments) o << "# produced elsewhere" << eol << "@ xmgrace directive" << eol;
  for (int i = 0; i < n; ++i) {
    std::string xs = fmtd("%.10g", -3 + 0.05 * i + r.uni(0, 0.01)), ys = r.coin(0.2) ? fmtd("%.6e", rval(r)) : fmtd("%.10g", rval(r));
    x[i] = tokd(xs); y[i] = tokd(ys);
    o << (r.coin(0.2) ? sep : "") << xs << sep << (r.coin(0.3) ? sep : "") << ys;
    if (ncol == 4) o << sep << fmtd("%.6g", std::fabs(rval(r)));
    if (ncol >= 3) { fl[i] = "iou"[r.range(0, 2)]; o << sep << fl[i]; }
    if (comments && r.coin(0.15)) o << sep << "# trailing comment 1 2 u";
    if (trail) o << "  " << (tabs ? "\t" : "");
    o << eol;
    if (comments && r.coin(0.2)) o << "# comment between data rows 3 4 o" << eol;
    if (comments && r.coin(0.1)) o << eol;
  }
  { std::ofstream of(file, std::ios::binary); of << o.str(); }
  R.eval("table-reader/text-variants");
  R.nontrivial(vfh::hstr(67, o.str().substr(0, 300)));
  auto W = [&]() { J w; w.i("rows", n).i("columns", ncol).b("crlf", crlf).b("tabs", tabs).b("trailing_blanks", trail).b("comments", comments).s("file", o.str().substr(0, 1500)); return w; };
  // files with Windows line ends are a sub-family with one key of its own
  const std::string fam = crlf ? "table-reader(crlf)" : "table-reader";
  auto key = [&](const char *k) { return crlf ? std::string("table-reader/windows-line-ends") : std::string("table-reader/") + k; };
  const std::string wl = crlf ? " (file with \\r\\n line ends)" : "";
  if (crlf) {
    // observation only: the statement is about tables written by the library (which never writes \r\n);
    // the unchanged reader keeps the '\r' (table.cc reaches std::getline, not tools::getline) and rejects or misreads
    // such files. Counted, not judged.
    Table tc;
    try { Quiet q; tc.Load(file); } catch (std::exception &) { R.counter("observed_only_table_crlf_rejected"); return; }
    bool same = tc.size() == n;
    for (int i = 0; same && i < n; ++i) same = nearx(tc.x(i), x[i]) && nearx(tc.y(i), y[i]) && tc.flags(i) == fl[i];
    R.counter(same ? "observed_only_table_crlf_read_correctly" : "observed_only_table_crlf_misread");
    return;
  }
  Table t;
  try { Quiet q; t.Load(file); } catch (std::exception &e) { judge(fam, "accepted", false, key("rejected"), "Table::Load throws on a valid table file" + wl, W().s("exception", e.what())); return; }
  judge(fam, "accepted", true, "", "", J());
  if (!judge(fam, "size", t.size() == n, key("size"), "number of rows differs from the data rows of the file" + wl, W().i("got", (long long)t.size()))) return;
  int bv = -1, bf = -1;
  for (int i = 0; i < n; ++i) { if (bv < 0 && (!nearx(t.x(i), x[i]) || !nearx(t.y(i), y[i]))) bv = i; if (bf < 0 && t.flags(i) != fl[i]) bf = i; }
  judge(fam, "values", bv < 0, key("values"), "x/y differ from the numbers in the file" + wl, W().i("row", bv));
  judge(fam, "flags", bf < 0, key("flags"), "flags differ from the last column of the file (2-column files: i)" + wl, W().i("row", bf).s("expected", fl));
}
// imcio readers called twice (same file, then another file)
static void imc_twice_case(vfh::Rng &r, const std::string &base) {
  new_case();
  R.eval("imc/read-twice");
  int r1 = (int)r.range(2, 8), c1 = (int)r.range(2, 8), r2 = (int)r.range(2, 8), c2 = (int)r.range(2, 8);
  Eigen::MatrixXd A(r1, c1), B(r2, c2);
  for (int i = 0; i < r1; ++i) for (int j = 0; j < c1; ++j) A(i, j) = rval(r);
  for (int i = 0; i < r2; ++i) for (int j = 0; j < c2; ++j) B(i, j) = rval(r);
  R.nontrivial(vfh::hdouble(vfh::hdouble(vfh::hmix(71, r1 * 100 + c2), A(0, 0)), B(0, 0)));
  std::string fa = base + "_2a.gmc", fb = base + "_2b.gmc", ia = base + "_2a.idx", ib = base + "_2b.idx";
  auto eq = [&](const Eigen::MatrixXd &G, const Eigen::MatrixXd &E) {
    if (G.rows() != E.rows() || G.cols() != E.cols()) return false;
    for (Index i = 0; i < E.rows(); ++i) for (Index j = 0; j < E.cols(); ++j) if (!(std::fabs(G(i, j) - E(i, j)) <= tol_sig(E(i, j), 8))) return false;
    return true;
  };
  using votca::tools::RangeParser;
  auto mk = [&](int n) { std::vector<std::pair<std::string, RangeParser>> v; long cur = 1; for (int i = 0; i < n; ++i) { RangeParser rp; long len = r.range(0, 30); rp.Add(cur, cur + len, 1); cur += len + 1; v.push_back({rname(r, 5), rp}); } return v; };
  auto expand = [&](std::vector<std::pair<std::string, RangeParser>> &v) { std::string s; for (auto &p : v) { s += p.first + ":"; long g = 0; for (RangeParser::iterator it = p.second.begin(); it != p.second.end() && g < 100000; ++it, ++g) s += std::to_string(*it) + ","; s += ";"; } return s; };
  try {
    Quiet q;
    imcio_write_matrix(fa, A); imcio_write_matrix(fb, B);
    Eigen::MatrixXd a1 = imcio_read_matrix(fa), a2 = imcio_read_matrix(fa), b1 = imcio_read_matrix(fb), a3 = imcio_read_matrix(fa);
    judge("imc", "read-twice/matrix", eq(a1, A) && eq(a2, A) && eq(b1, B) && eq(a3, A), "imc/read-twice/matrix", "imcio_read_matrix called repeatedly (same file, another file, first file again) does not return each file's matrix",
          J().i("rows1", r1).i("cols1", c1).i("rows2", r2).i("cols2", c2).s("file1", slurp(fa, 800)).s("file2", slurp(fb, 800)));
    auto I1 = mk((int)r.range(1, 5)), I2 = mk((int)r.range(1, 5));
    imcio_write_index(ia, I1); imcio_write_index(ib, I2);
    auto g1 = imcio_read_index(ia), g2 = imcio_read_index(ia), h1 = imcio_read_index(ib), g3 = imcio_read_index(ia);
    std::string e1 = expand(I1), e2 = expand(I2);
    judge("imc", "read-twice/index", expand(g1) == e1 && expand(g2) == e1 && expand(h1) == e2 && expand(g3) == e1, "imc/read-twice/index", "imcio_read_index called repeatedly does not return each file's ranges",
          J().s("file1", slurp(ia, 600)).s("file2", slurp(ib, 600)));
  } catch (std::exception &e) {
    judge("imc", "read-twice/threw", false, "imc/read-twice/threw", "imcio write/read sequence throws", J().s("exception", e.what()));
  }
}

// ------------------------------------------------------------------ main
int main(int argc, char **argv) {
  vfh::Args A(argc, argv);
  long seed = A.num("seed", 1), shard = A.num("shard", 0), n = A.num("n", 50);
  std::string fam = A.str("family", "gro");
  g_dir = A.str("dir", ".");
  mkdir(g_dir.c_str(), 0755);
  R.max_samples = 2;
  TrajectoryWriter::RegisterPlugins();
  TrajectoryReader::RegisterPlugins();
  TopologyReader::RegisterPlugins();
  vfh::Rng rng((uint64_t)seed * 1000003ULL + (uint64_t)shard * 7919ULL + vfh::hstr(5, fam) % 100000);
  std::string base = g_dir + "/c";
  int maxbeads = (int)A.num("maxbeads", 200);

  if (fam == "child-traj") return child_traj(A.str("file"), (int)A.num("ntop", 1));
  if (fam == "child-top") return child_top(A.str("file"));
  if (fam == "gro" || fam == "xyz" || fam == "pdb" || fam == "dump") {
    for (long k = 0; k < n; ++k) {
      CaseD c = gen_case(rng, fam, maxbeads, 6, shard == 0 && k < 24 ? (int)k : -1);
      roundtrip(c, base + "." + fam, fam);
    }
  } else if (fam == "dlpoly") {
    long k = A.num("case", 0);
    g_tilt_seq = k / 2;  // one case per process: enumerate the tilt patterns over the case index
    vfh::Rng r2((uint64_t)seed * 2000003ULL + (uint64_t)k * 104729ULL + 77);
    int variant = (int)(k % 8);
    if (variant == 6 || variant == 7) {
      // a header / frame whose atom count disagrees with the topology
      g_minimal = k < 16;
      atomcount_case(r2, variant == 6 ? "dlph" : "dlpc", "dlpoly", base + (variant == 6 ? ".dlph" : ".dlpc"));
    } else {
      bool config = variant == 5;
      CaseD c = gen_case(r2, "dump", maxbeads, 6, k < 48 ? (int)(k / 8) * 4 + (int)(k % 4) : -1);
      c.fmt = config ? "dlpc" : "dlph";
      for (auto &F : c.fr) F.hv = F.hf = -1;  // the HISTORY header fixes keytrj for all frames
      if (c.frc && !c.vel && r2.coin()) c.vel = true;
      roundtrip(c, base + (config ? ".dlpc" : ".dlph"), "dlpoly", config);
      if (!c.fr.empty() && c.fr[0].step == 0 && !config) R.counter("dlpoly/first_step_0_cases(time=nan not judged)");
    }
  } else if (fam == "atomcount") {
    const char *fm[4] = {"gro", "xyz", "pdb", "dump"};
    for (long k = 0; k < n; ++k) {
      g_minimal = shard == 0 && k < 16;
      std::string f = fm[k % 4];
      atomcount_case(rng, f, f, base + "_ac." + f);
    }
  } else if (fam == "reuse") {
    // objects used more than once (DL_POLY: reader only, on harness-written
    // HISTORY files; its writer is one-per-process by the documented assumption)
    const char *wf[4] = {"gro", "xyz", "pdb", "dump"};
    const char *rf[5] = {"gro", "xyz", "pdb", "dump", "dlpoly"};
    for (long k = 0; k < n; ++k) {
      g_minimal = shard == 0 && k < 15;
      switch (k % 3) {
        case 0: writer_reuse_case(rng, wf[(k / 3) % 4], base); break;
        case 1: append_case(rng, wf[(k / 3) % 4], base); break;
        default: reader_reuse_case(rng, rf[(k / 3) % 5], base); break;
      }
    }
  } else if (fam == "dumpread") {
    for (long k = 0; k < n; ++k) { g_minimal = shard == 0 && k < 8; dumpread_case(rng, base + "_dr"); }
  } else if (fam == "readers") {
    for (long k = 0; k < n; ++k) {
      g_minimal = shard == 0 && k < 12;
      switch (k % 4) {
        case 0: groread_case(rng, base + "_rv.gro"); break;
        case 1: xyzread_case(rng, base + "_rv.xyz"); break;
        case 2: pdbread_case(rng, base + "_rv.pdb"); break;
        default: dlpread_case(rng, base + "_rv"); break;
      }
    }
  } else if (fam == "xml") {
    for (long k = 0; k < n; ++k) xml_case(rng, base + ".xml");
  } else if (fam == "table") {
    for (long k = 0; k < n; ++k) {
      g_minimal = shard == 0 && k < 10;
      table_case(rng, base + ".tab");
      if (k % 4 == 1) table_reuse_case(rng, base);
      if (k % 4 == 2) table_text_case(rng, base + "_txt.tab");
    }
  } else if (fam == "imc") {
    for (long k = 0; k < n; ++k) {
      g_minimal = shard == 0 && k < 10;
      imc_matrix_case(rng, base + ".gmc");
      if (k % 3 == 0) imc_index_case(rng, base + ".idx");
      if (k % 5 == 0) imc_ds_case(rng, base + ".imc");
      if (k % 7 == 0) imc_twice_case(rng, base);
    }
  } else {
    std::cerr << "unknown family " << fam << "\n";
    return 2;
  }
  R.summary();
  return 0;
}
