// C13 monitor: histograms conserve weight and never write outside their bins
// (DESIGN.md §5 C13).
// Real code: tools::HistogramNew (Initialize/setPeriodic/Process/ProcessRange/
// Normalize/data) and the legacy tools::Histogram::ProcessData, asan flavour
// (Eigen index assertions, _GLIBCXX_ASSERTIONS, ASan, float-cast-overflow).
// Oracle: shadow histogram in long double (nearest centre min + k*step, accept
// iff within half a step of the range, wrap modulo the length when periodic);
// values within a relative band of a bin edge are accepted in either bin.
// Families that can abort on a suspected defect run one case per forked child
// so that the rest of the run is still judged:
//   --mode wrap    periodic values below the range whose bin is congruent 0
//   --mode huge    values whose bin index does not fit a 64 bit integer
//   --mode legacyx legacy: extreme values / single-valued data
#include "vfh.h"
#include <cfloat>
#include <poll.h>
#include <sys/wait.h>
#include <votca/tools/histogram.h>
#include <votca/tools/histogramnew.h>

using namespace votca::tools;
using vfh::J;
typedef long double LD;
typedef votca::Index Index;

// ------------------------------------------------------------------ fork
struct ForkRes {
  bool ok = false;       // child exited 0 and delivered a result
  bool timeout = false;
  int status = 0;
  std::string result, err;
};
// run fn in a child; fn returns a short result string. stderr of the child is
// captured (sanitizer / assertion text).
template <class F>
static ForkRes run_forked(F fn, int timeout_s = 60) {
  ForkRes R;
  int pe[2], pr[2];
  if (pipe(pe) || pipe(pr)) { perror("pipe"); exit(3); }
  fflush(stdout);
  std::cout.flush();
  pid_t pid = fork();
  if (pid < 0) { perror("fork"); exit(3); }
  if (pid == 0) {
    ::close(pe[0]); ::close(pr[0]);
    dup2(pe[1], 2);
    alarm(timeout_s);
    std::string s = fn();
    (void)!write(pr[1], s.data(), s.size());
    _exit(0);
  }
  ::close(pe[1]); ::close(pr[1]);
  struct pollfd fds[2] = {{pe[0], POLLIN, 0}, {pr[0], POLLIN, 0}};
  std::string *dst[2] = {&R.err, &R.result};
  int open_n = 2;
  char buf[4096];
  while (open_n > 0) {
    if (poll(fds, 2, -1) < 0) break;
    for (int k = 0; k < 2; ++k) {
      if (fds[k].fd < 0 || !(fds[k].revents & (POLLIN | POLLHUP | POLLERR))) continue;
      ssize_t n = read(fds[k].fd, buf, sizeof buf);
      if (n > 0) { if (dst[k]->size() < 65536) dst[k]->append(buf, n); }
      else { ::close(fds[k].fd); fds[k].fd = -1; --open_n; }
    }
  }
  waitpid(pid, &R.status, 0);
  R.timeout = WIFSIGNALED(R.status) && WTERMSIG(R.status) == SIGALRM;
  R.ok = WIFEXITED(R.status) && WEXITSTATUS(R.status) == 0;
  return R;
}
// the informative line(s) of a sanitizer / assertion report
static std::string report_line(const std::string &err) {
  std::istringstream is(err);
  std::string ln, out;
  while (std::getline(is, ln)) {
    if (ln.find("Assertion") != std::string::npos || ln.find("runtime error") != std::string::npos ||
        ln.find("ERROR: AddressSanitizer") != std::string::npos || ln.find("terminate called") != std::string::npos ||
        ln.find("what():") != std::string::npos) {
      if (out.size() < 600) out += ln.substr(0, 300) + " | ";
    }
  }
  if (out.empty()) out = err.substr(0, 300);
  return out;
}
static std::string status_str(const ForkRes &f) {
  if (f.timeout) return "timeout (no termination within the watchdog)";
  if (WIFSIGNALED(f.status)) return "killed by signal " + std::to_string(WTERMSIG(f.status));
  return "exit code " + std::to_string(WEXITSTATUS(f.status));
}

// ------------------------------------------------------------------ oracle
struct Cfg {
  double min, max;
  Index nbins;
  bool periodic;
};
static const int DISCARD = -1;
struct Cls {
  int n = 0;            // number of admissible outcomes (1 or 2..3)
  long out[3];          // bin index or DISCARD
  bool trigger = false; // a candidate raw index is < 0 and congruent 0 (periodic): suspected-defect family
  bool huge = false;    // raw index beyond +-2^62: suspected-defect family (integer cast)
  bool outside = false; // raw index outside 0..nbins-1
  LD t = 0;
};
static LD step_of(const Cfg &c, double code_step) {
  if (c.nbins == 1) return (LD)code_step;  // statement leaves the step of a single bin open: the code's own step is used
  return c.periodic ? ((LD)c.max - (LD)c.min) / (LD)c.nbins : ((LD)c.max - (LD)c.min) / (LD)(c.nbins - 1);
}
static Cls classify(const Cfg &c, LD step, double v) {
  Cls r;
  LD t = ((LD)v - (LD)c.min) / step;
  r.t = t;
  if (fabsl(t) > 4.0e18L) { r.huge = true; return r; }
  LD k = floorl(t + 0.5L), f = t + 0.5L - k;
  LD band = 1e-9L + 1e-12L * fabsl(t);
  LD cand[3];
  int nc = 0;
  cand[nc++] = k;
  if (f < band) cand[nc++] = k - 1;
  if (f > 1 - band) cand[nc++] = k + 1;
  long n = (long)c.nbins;
  for (int i = 0; i < nc; ++i) {
    long long kk = (long long)cand[i];
    long o;
    if (kk < 0 || kk >= n) r.outside = true;
    if (c.periodic) {
      long long m = kk % n;
      if (m < 0) m += n;
      o = (long)m;
      if (kk < 0 && m == 0) r.trigger = true;
    } else {
      o = (kk >= 0 && kk < n) ? (long)kk : DISCARD;
    }
    bool dup = false;
    for (int j = 0; j < r.n; ++j) dup |= (r.out[j] == o);
    if (!dup) r.out[r.n++] = o;
  }
  return r;
}

static Cfg gen_cfg(vfh::Rng &r) {
  Cfg c;
  static const std::vector<long> NB = {1, 2, 3, 4, 5, 7, 10, 11, 16, 50, 100, 101, 360, 1000};
  c.nbins = r.coin(0.7) ? r.pick(NB) : r.range(2, 300);
  int how = (int)r.range(0, 9);
  if (how == 0) { c.min = 0; c.max = 10; }
  else if (how == 1) { c.min = -3.141592653589793; c.max = 3.141592653589793; }
  else if (how == 2) { c.min = 0; c.max = (double)r.range(1, 40) * 0.25; }
  else {
    double L = r.logu(1e-3, 1e3);
    int s = (int)r.range(0, 3);
    if (s == 0) c.min = 0;
    else if (s == 1) c.min = -r.logu(1e-3, 1e3);
    else if (s == 2) c.min = r.logu(1e-3, 1e3);
    else c.min = -0.5 * L;
    c.max = c.min + L;
  }
  c.periodic = r.coin();
  return c;
}
static double gen_weight(vfh::Rng &r, int wmode) {
  switch (wmode) {
    case 0: return 1.0;
    case 1: return r.uni(0.01, 20);
    case 2: return r.coin() ? r.uni(0.01, 20) : -r.uni(0.01, 20);
    default: return r.logu(1e-6, 1e6) * (r.coin(0.2) ? -1 : 1);
  }
}
// one value of the workload mix; kind is returned for the counters
static double gen_value(vfh::Rng &r, const Cfg &c, double step, int &kind) {
  double L = c.max - c.min;
  long n = (long)c.nbins;
  kind = (int)r.range(0, 11);
  switch (kind) {
    case 0: case 1: case 2: return r.uni(c.min, c.max);                         // inside
    case 3: return c.min + (double)r.range(0, n - 1) * step;                     // on a centre
    case 4: return c.min + ((double)r.range(-2, n + 1) + 0.5) * step;            // on a bin edge (incl. the two outer edges and beyond)
    case 5: return r.coin() ? c.min - step * r.uni(0, 1.5) : c.max + step * r.uni(0, 1.5);  // just outside
    case 6: { double f = r.logu(1, 1e6); return r.coin() ? c.min - L * f : c.max + L * f; }  // far outside (up to 1e6 ranges)
    case 7: return c.min + (double)r.range(-1000, 1000) * L + r.uni(0, L);       // an image of an inside value
    case 8: return c.min + (double)r.range(-6, 6) * L;                           // exact multiples of the length
    case 9: { int w = (int)r.range(0, 3); return w == 0 ? c.min : w == 1 ? c.max : w == 2 ? c.min - 0.5 * step : c.max + 0.5 * step; }
    case 10: return c.min + (double)r.range(-50 * n, 50 * n) * step;             // centres of image bins
    default: return c.min + ((double)r.range(-50 * n, 50 * n) + 0.5) * step;     // edges of image bins
  }
}
static J cfgj(const Cfg &c) {
  J j;
  j.d("min", c.min).d("max", c.max).i("nbins", c.nbins).b("periodic", c.periodic);
  return j;
}
static uint64_t cfgh(const Cfg &c) {
  uint64_t h = vfh::hdouble(vfh::hdouble(5, c.min), c.max);
  return vfh::hmix(vfh::hmix(h, (uint64_t)c.nbins), c.periodic);
}

// ------------------------------------------------------------------ HistogramNew, main family
static void run_histnew(vfh::Rng &rng, vfh::Reporter &R, long nvalues) {
  long done = 0;
  long kinds[12] = {0}, c_def_huge = 0, c_def_wrap = 0, c_disc = 0, c_wrapped = 0, c_edge = 0, c_edge_disc = 0;
  struct Flush {
    vfh::Reporter &R; long *kinds, &a, &b, &c, &d, &e, &f;
    ~Flush() {
      for (int k = 0; k < 12; ++k) R.counter("value_kind_" + std::to_string(k), kinds[k]);
      R.counter("deferred_to_huge_family", a); R.counter("deferred_to_wrap_family", b); R.counter("discarded_outside", c);
      R.counter("wrapped", d); R.counter("edge_band_both_accepted", e); R.counter("edge_band_discarded", f);
    }
  } flush{R, kinds, c_def_huge, c_def_wrap, c_disc, c_wrapped, c_edge, c_edge_disc};
  while (done < nvalues) {
    Cfg c = gen_cfg(rng);
    HistogramNew h;
    h.setPeriodic(c.periodic);
    h.Initialize(c.min, c.max, c.nbins);
    const std::string fam = c.periodic ? "histnew_periodic" : "histnew_nonperiodic";
    double cstep = h.getStep();
    LD step = step_of(c, cstep);
    long n = (long)c.nbins;
    // structure: size, centres, step
    {
      R.eval("histnew_layout");
      bool bad = (long)h.data().size() != n || h.getNBins() != c.nbins;
      if (!bad && n > 1 && !vfh::close(cstep, (double)step, 0, 1e-12)) bad = true;
      for (long i = 0; !bad && i < n; ++i) {
        LD want = (LD)c.min + (LD)i * step;
        LD tol = 1e-9L * (fabsl((LD)c.min) + fabsl((LD)c.max) + (LD)n * step);
        if (fabsl((LD)h.data().x(i) - want) > tol || h.data().y(i) != 0.0) bad = true;
      }
      if (bad) R.violation("histnew/layout", "bin count, step or bin centres differ from min + k*step", cfgj(c).d("step", cstep));
    }
    long nv = rng.range(50, 1500);
    int wmode = (int)rng.range(0, 3);
    std::vector<double> sh(n, 0.0), ab(n, 0.0);
    LD wsum = 0, wabs = 0;
    long n_out = 0, n_acc = 0, n_amb = 0;
    uint64_t hh = cfgh(c);
    bool broken = false;
    std::vector<double> firstvals;
    for (long iv = 0; iv < nv && !broken; ++iv) {
      int kind;
      double v = gen_value(rng, c, cstep, kind);
      Cls cl = classify(c, step, v);
      if (cl.huge) { ++c_def_huge; continue; }
      if (cl.trigger) { ++c_def_wrap; continue; }
      double w = gen_weight(rng, wmode);
      if (firstvals.size() < 6) { firstvals.push_back(v); hh = vfh::hdouble(hh, v); }
      ++kinds[kind];
      if (cl.outside) ++n_out;
      if (cl.n == 1) {
        if (wmode == 0) h.Process(v); else h.Process(v, w);
        if (cl.out[0] != DISCARD) { sh[cl.out[0]] += w; ab[cl.out[0]] += std::fabs(w); wsum += w; wabs += std::fabs(w); ++n_acc; }
        else ++c_disc;
        if (cl.outside && c.periodic) ++c_wrapped;
      } else {
        // value within the don't-care band of a bin edge: either neighbour is accepted
        ++n_amb;
        ++c_edge;
        double before[3], after[3];
        for (int j = 0; j < cl.n; ++j) before[j] = cl.out[j] == DISCARD ? 0 : h.data().y(cl.out[j]);
        if (wmode == 0) h.Process(v); else h.Process(v, w);
        int chosen = -2;
        int nchanged = 0;
        for (int j = 0; j < cl.n; ++j) {
          after[j] = cl.out[j] == DISCARD ? 0 : h.data().y(cl.out[j]);
          if (after[j] != before[j]) { ++nchanged; chosen = j; }
        }
        bool has_discard = false;
        for (int j = 0; j < cl.n; ++j) has_discard |= (cl.out[j] == DISCARD);
        if (nchanged == 1 && after[chosen] == before[chosen] + w) {
          long b = cl.out[chosen];
          sh[b] += w; ab[b] += std::fabs(w); wsum += w; wabs += std::fabs(w); ++n_acc;
        } else if (nchanged == 0 && has_discard) {
          ++c_edge_disc;
        } else {
          broken = true;
          R.violation(fam.substr(8) == "periodic" ? "histnew/periodic-edge-value" : "histnew/edge-value",
                      "a value on a bin edge was not added to one of the two adjacent bins (or dropped at the outer edge)",
                      cfgj(c).d("v", v).d("w", w).i("bins_changed", nchanged));
        }
      }
    }
    R.eval(fam, nv);
    done += nv;
    if (broken) continue;
    // full comparison with the shadow
    LD sum = 0;
    long bad_i = -1;
    for (long i = 0; i < n; ++i) {
      double got = h.data().y(i);
      sum += got;
      if (!(std::fabs(got - sh[i]) <= 1e-12 * ab[i])) { if (bad_i < 0) bad_i = i; }
    }
    if (bad_i >= 0) {
      J w = cfgj(c);
      w.i("seed_values", nv).i("bin", bad_i).d("got", h.data().y(bad_i)).d("expected", sh[bad_i]).vec("first_values", firstvals);
      R.violation(c.periodic ? "histnew/periodic-bin-content" : "histnew/bin-content",
                  "bin contents differ from the shadow histogram (nearest centre, half-step acceptance, wrap modulo length)", w);
      continue;
    }
    if (!(fabsl(sum - wsum) <= 1e-11L * wabs + 1e-300L))
      R.violation("histnew/conservation", "sum of bins != total accepted weight", cfgj(c).d("sum", (double)sum).d("accepted", (double)wsum));
    if (n_out > 0 && n_acc > 0) R.nontrivial(hh);
    if (R.want_sample() && n_out > 0 && n_acc > 0)
      R.sample(cfgj(c).i("values", nv).i("outside_range", n_out).i("accepted", n_acc).i("edge_band", n_amb).d("sum_bins", (double)sum).d("accepted_weight", (double)wsum));
    // ProcessRange = Process with weight 1 per element
    if (rng.coin(0.2)) {
      HistogramNew h2;
      h2.setPeriodic(c.periodic);
      h2.Initialize(c.min, c.max, c.nbins);
      std::vector<double> vals;
      std::vector<double> sh2(n, 0.0);
      for (int q = 0; q < 40; ++q) {
        int kind;
        double v = gen_value(rng, c, cstep, kind);
        Cls cl = classify(c, step, v);
        if (cl.huge || cl.trigger || cl.n != 1) continue;
        vals.push_back(v);
        if (cl.out[0] != DISCARD) sh2[cl.out[0]] += 1.0;
      }
      h2.ProcessRange(vals.begin(), vals.end());
      R.eval("histnew_processrange", (long)vals.size());
      for (long i = 0; i < n; ++i)
        if (h2.data().y(i) != sh2[i]) {
          R.violation("histnew/processrange", "ProcessRange differs from the shadow histogram", cfgj(c).vec("values", vals).i("bin", i).d("got", h2.data().y(i)).d("expected", sh2[i]));
          break;
        }
    }
    // Normalize: integral one, ratios unchanged
    {
      std::vector<double> before(n);
      bool anyneg = false, anypos = false;
      double S = 0, amax = 0;
      long jmax = 0;
      for (long i = 0; i < n; ++i) {
        before[i] = h.data().y(i);
        S += before[i];
        anyneg |= before[i] < 0; anypos |= before[i] > 0;
        if (std::fabs(before[i]) > amax) { amax = std::fabs(before[i]); jmax = i; }
      }
      if (!anyneg && !anypos) { R.counter("normalize_empty_not_judged"); continue; }
      h.Normalize();
      R.eval("histnew_normalize");
      double S2 = 0;
      bool ratio_bad = false;
      long ri = -1;
      for (long i = 0; i < n; ++i) {
        double a = h.data().y(i);
        S2 += a;
        // a_i * b_j == a_j * b_i with j the largest bin
        double lhs = a * before[jmax], rhs = h.data().y(jmax) * before[i];
        if (!(std::fabs(lhs - rhs) <= 1e-10 * (std::fabs(lhs) + std::fabs(rhs)) + 1e-300)) { ratio_bad = true; if (ri < 0) ri = i; }
      }
      if (ratio_bad)
        R.violation("histnew/normalize-ratios", "Normalize changed bin ratios", cfgj(c).i("bin", ri).d("before", before[ri]).d("after", h.data().y(ri)).d("before_max", before[jmax]).d("after_max", h.data().y(jmax)));
      if (anyneg) {
        R.counter("normalize_negative_bins_integral_not_judged");  // the code normalises the integral of |y|; the statement's 'integral one' is judged for non-negative contents only
      } else if (!vfh::close(S2 * h.getStep(), 1.0, 0, 1e-10)) {
        R.violation("histnew/normalize-integral", "after Normalize sum*step != 1", cfgj(c).d("sum_before", S).d("sum_after", S2).d("step", h.getStep()).d("integral", S2 * h.getStep()));
      }
    }
  }
}

// ------------------------------------------------------------------ HistogramNew, forked families
// one case: a few harmless values, then the probe value; result string
// "OK" or "BAD ..." is produced in the child.
static std::string probe_child(const Cfg &c, const std::vector<double> &warm, double v, double w, bool huge) {
  HistogramNew h;
  h.setPeriodic(c.periodic);
  h.Initialize(c.min, c.max, c.nbins);
  for (double x : warm) h.Process(x, 1.0);
  long n = (long)c.nbins;
  std::vector<double> before(n);
  for (long i = 0; i < n; ++i) before[i] = h.data().y(i);
  h.Process(v, w);
  std::vector<long> changed;
  for (long i = 0; i < n; ++i)
    if (h.data().y(i) != before[i]) changed.push_back(i);
  std::ostringstream o;
  if (huge) {
    if (!c.periodic) {
      if (!changed.empty()) { o << "BAD non-periodic value far outside changed bin " << changed[0]; return o.str(); }
      return "OK";
    }
    if (changed.size() != 1 || h.data().y(changed[0]) != before[changed[0]] + w) { o << "BAD periodic value not added to exactly one bin (bins changed: " << changed.size() << ")"; return o.str(); }
    return "OK";
  }
  Cls cl = classify(c, step_of(c, h.getStep()), v);
  if (changed.size() != 1) { o << "BAD bins changed: " << changed.size(); return o.str(); }
  bool okbin = false;
  for (int j = 0; j < cl.n; ++j) okbin |= (cl.out[j] == changed[0]);
  if (!okbin) { o << "BAD value went to bin " << changed[0] << " expected " << cl.out[0]; return o.str(); }
  if (h.data().y(changed[0]) != before[changed[0]] + w) return "BAD weight not added";
  return "OK";
}

static void run_wrap(vfh::Rng &rng, vfh::Reporter &R, long ncases) {
  for (long ic = 0; ic < ncases; ++ic) {
    Cfg c = gen_cfg(rng);
    c.periodic = true;
    if (ic % 7 == 0) { c.min = 0; c.max = 10; c.nbins = 10; }
    if (ic % 7 == 1) c.nbins = 1;
    double L = c.max - c.min;
    double step = c.nbins == 1 ? 1.0 : L / (double)c.nbins;
    long m = (ic % 3 == 0) ? rng.range(1, 5) : (ic % 3 == 1 ? rng.range(6, 1000) : rng.range(1, 3));
    double v = c.min - (double)m * L;
    int variant = (int)(ic % 4);
    if (variant == 1) v += step * rng.uni(-0.45, 0.45);
    if (variant == 2) v = c.min - (double)m * (double)c.nbins * step;
    if (c.nbins == 1) v = c.min - rng.uni(0.6, 50.0);
    double w = rng.coin() ? 1.0 : rng.uni(0.1, 5);
    std::vector<double> warm;
    for (int q = 0; q < 5; ++q) warm.push_back(rng.uni(c.min, c.max));
    // only cases of this family: raw bin below zero and congruent 0
    {
      HistogramNew probe;
      probe.setPeriodic(true);
      probe.Initialize(c.min, c.max, c.nbins);
      Cls cl = classify(c, step_of(c, probe.getStep()), v);
      if (!cl.trigger || cl.huge) { R.counter("wrap_generated_not_in_family"); continue; }
    }
    ForkRes f = run_forked([&]() { return probe_child(c, warm, v, w, false); });
    R.eval("histnew_periodic_below_range_congruent_zero");
    R.nontrivial(vfh::hdouble(cfgh(c), v));
    J wit = cfgj(c);
    wit.d("v", v).d("w", w).i("periods_below", m).vec("warmup_values", warm);
    if (!f.ok) {
      R.counter("wrap_family_aborts");
      R.violation("histnew/periodic-wrap-index",
                  "periodic value below the range whose bin is congruent 0: process aborted (" + status_str(f) + "): " + report_line(f.err), wit);
    } else if (f.result != "OK") {
      R.violation("histnew/periodic-wrap-index", "periodic value below the range whose bin is congruent 0: " + f.result, wit);
    } else {
      R.counter("wrap_family_ok");
      if (R.want_sample()) R.sample(wit.s("result", "bin 0 += w"));
    }
  }
}

static void run_huge(vfh::Rng &rng, vfh::Reporter &R, long ncases) {
  static const std::vector<double> MAG = {1e19, 3e19, 1e20, 1e25, 1e50, 1e100, 1e200, 1e300};
  for (long ic = 0; ic < ncases; ++ic) {
    Cfg c = gen_cfg(rng);
    c.periodic = (ic % 2) == 1;
    double L = c.max - c.min;
    double step = c.nbins == 1 ? 1.0 : (c.periodic ? L / (double)c.nbins : L / (double)(c.nbins - 1));
    double v;
    if (ic % 3 == 0) v = c.min + step * 1.0e19 * rng.uni(1, 4);  // just beyond the 64-bit index range
    else v = rng.pick(MAG) * rng.uni(0.5, 1.0);
    if (rng.coin()) v = -v;
    if (!(std::fabs(v) <= 1e300)) v = v > 0 ? 1e300 : -1e300;
    {
      LD t = ((LD)v - (LD)c.min) / (LD)step;
      if (fabsl(t) < 9.3e18L) { R.counter("huge_generated_not_in_family"); continue; }
    }
    double w = rng.coin() ? 1.0 : rng.uni(0.1, 5);
    std::vector<double> warm;
    for (int q = 0; q < 5; ++q) warm.push_back(rng.uni(c.min, c.max));
    ForkRes f = run_forked([&]() { return probe_child(c, warm, v, w, true); });
    R.eval(c.periodic ? "histnew_huge_value_periodic" : "histnew_huge_value_nonperiodic");
    R.nontrivial(vfh::hdouble(cfgh(c), v));
    J wit = cfgj(c);
    wit.d("v", v).d("w", w).vec("warmup_values", warm);
    if (!f.ok) {
      R.counter("huge_family_aborts");
      R.violation("histnew/huge-value-cast", "finite value whose bin index exceeds the integer range: process aborted (" + status_str(f) + "): " + report_line(f.err), wit);
    } else if (f.result != "OK") {
      R.violation("histnew/huge-value-cast", "finite value whose bin index exceeds the integer range: " + f.result, wit);
    } else {
      R.counter("huge_family_ok");
      if (R.want_sample()) R.sample(wit.s("result", c.periodic ? "one bin += w" : "discarded"));
    }
  }
}

// ------------------------------------------------------------------ legacy Histogram
typedef DataCollection<double>::array Arr;
typedef DataCollection<double>::selection Sel;
struct LData {
  std::vector<std::vector<double>> arrays;
  double lo = DBL_MAX, hi = -DBL_MAX;
  long count = 0;
  void finish() {
    lo = DBL_MAX; hi = -DBL_MAX; count = 0;
    for (auto &a : arrays) for (double v : a) { lo = std::min(lo, v); hi = std::max(hi, v); ++count; }
  }
  std::vector<double> flat(size_t maxn = 40) const {
    std::vector<double> f;
    for (auto &a : arrays) for (double v : a) if (f.size() < maxn) f.push_back(v);
    return f;
  }
};
static void legacy_run(Histogram &h, const LData &d) {
  std::vector<Arr *> arrs;
  Sel sel;
  int k = 0;
  for (auto &a : d.arrays) {
    Arr *A = new Arr("a" + std::to_string(k++));
    A->assign(a.begin(), a.end());
    arrs.push_back(A);
    sel.push_back(A);
  }
  h.ProcessData(&sel);
  for (Arr *A : arrs) delete A;
}
static LData gen_ldata(vfh::Rng &r, int sign /*0 pos,1 mixed,2 neg*/, long maxn = 400) {
  LData d;
  int na = (int)r.range(1, 3);
  double scale = r.logu(1e-2, 1e3);
  int dist = (int)r.range(0, 2);
  for (int a = 0; a < na; ++a) {
    long n = r.range(1, maxn);
    std::vector<double> v(n);
    for (auto &x : v) {
      double u = dist == 0 ? r.uni() : dist == 1 ? std::fabs(r.normal()) * 0.3 + 0.01 : (double)r.range(1, 20) / 20.0;
      if (sign == 0) x = scale * (0.05 + u);
      else if (sign == 2) x = -scale * (0.05 + u);
      else x = scale * (u - 0.5);
    }
    d.arrays.push_back(v);
  }
  d.finish();
  return d;
}
// shadow counts with edge band: certain[k] <= got[k] <= certain[k]+maybe[k]
struct LShadow { std::vector<double> certain, maybe; long accepted = 0, ambiguous = 0, outside = 0; };
static LShadow legacy_shadow(const LData &d, double lo, double hi, long n, bool periodic_discard_none) {
  LShadow s;
  s.certain.assign(n, 0); s.maybe.assign(n, 0);
  Cfg c{lo, hi, n, false};
  LD step = n == 1 ? 1 : ((LD)hi - (LD)lo) / (LD)(n - 1);
  for (auto &a : d.arrays)
    for (double v : a) {
      Cls cl = classify(c, step, v);
      if (cl.outside) ++s.outside;
      if (cl.n == 1) { if (cl.out[0] != DISCARD) { s.certain[cl.out[0]] += 1; ++s.accepted; } }
      else { ++s.ambiguous; for (int j = 0; j < cl.n; ++j) if (cl.out[j] != DISCARD) s.maybe[cl.out[j]] += 1; }
    }
  (void)periodic_discard_none;
  return s;
}

static void run_legacy(vfh::Rng &rng, vfh::Reporter &R, long ncases) {
  static const std::vector<long> NB = {2, 3, 5, 11, 51, 101, 200};
  for (long ic = 0; ic < ncases; ++ic) {
    int fam = (int)(ic % 8);
    Histogram::options_t op;
    op.n_ = rng.coin(0.7) ? rng.pick(NB) : rng.range(2, 300);
    op.normalize_ = rng.coin();
    if (fam <= 2) {
      // ---- automatic range, no scaling: fam 0 positive, 1 mixed sign, 2 all negative
      LData d = gen_ldata(rng, fam);
      if (d.lo == d.hi) { R.counter("legacy_single_valued_skipped_here"); continue; }
      op.auto_interval_ = true;
      Histogram h(op);
      legacy_run(h, d);
      const char *fname = fam == 0 ? "legacy_autorange_positive" : fam == 1 ? "legacy_autorange_mixed_sign" : "legacy_autorange_all_negative";
      R.eval(fname);
      J wit;
      wit.i("n", op.n_).b("normalize", op.normalize_).vec("data_first40", d.flat()).i("data_count", d.count).d("data_min", d.lo).d("data_max", d.hi).d("got_min", h.getMin()).d("got_max", h.getMax());
      R.nontrivial(vfh::hdouble(vfh::hdouble(vfh::hmix(77, (uint64_t)op.n_), d.lo), d.hi));
      if (h.getMin() != d.lo || h.getMax() != d.hi) {
        R.violation(d.hi <= 0 ? "legacy/autorange-negative-data" : "legacy/autorange", "automatic range is not [min(data), max(data)]", wit);
        continue;
      }
      long n = (long)op.n_;
      LShadow s = legacy_shadow(d, d.lo, d.hi, n, false);
      std::vector<double> &pdf = h.getPdf();
      if ((long)pdf.size() != n) { R.violation("legacy/size", "pdf size != n", wit); continue; }
      double fac = 1.0;
      double sum = 0;
      for (double p : pdf) sum += p;
      if (op.normalize_) {
        if (!vfh::close(sum * h.getInterval(), 1.0, 0, 1e-10)) { R.violation("legacy/normalize-integral", "sum*interval != 1 after normalisation", wit.d("integral", sum * h.getInterval())); continue; }
        fac = (double)d.count * h.getInterval();  // counts = pdf * N * interval
      } else if (!vfh::close(sum, (double)d.count, 1e-9, 1e-12)) {
        R.violation("legacy/conservation", "sum of bins != number of values inside the automatic range", wit.d("sum", sum));
        continue;
      }
      for (long i = 0; i < n; ++i) {
        double got = pdf[i] * fac, tol = 1e-9 * (double)d.count + 1e-9;
        if (got < s.certain[i] - tol || got > s.certain[i] + s.maybe[i] + tol) {
          R.violation("legacy/bin-content", "bin content differs from the shadow histogram", wit.i("bin", i).d("got", got).d("expected_min", s.certain[i]).d("expected_max", s.certain[i] + s.maybe[i]));
          break;
        }
      }
      if (s.ambiguous) R.counter("legacy_edge_band_values", s.ambiguous);
      if (R.want_sample() && ic % 5 == 1) R.sample(wit);
    } else if (fam == 3 || fam == 4) {
      // ---- explicit range, values inside and outside, non-periodic (3) / periodic (4)
      LData d = gen_ldata(rng, (int)rng.range(0, 2));
      double span = d.hi - d.lo;
      if (!(span > 0)) continue;
      op.auto_interval_ = false;
      op.extend_interval_ = false;
      op.min_ = d.lo + span * rng.uni(-0.2, 0.4);
      op.max_ = d.hi - span * rng.uni(-0.2, 0.4);
      if (!(op.max_ > op.min_)) continue;
      op.periodic_ = fam == 4;
      if (fam == 4) {
        // a few values many periods away (bounded: the code walks up period by period)
        for (auto &a : d.arrays) for (auto &x : a) if (rng.coin(0.05)) x += (double)rng.range(-2000, 2000) * (op.max_ - op.min_);
        d.finish();
      }
      Histogram h(op);
      legacy_run(h, d);
      R.eval(fam == 3 ? "legacy_explicit_nonperiodic" : "legacy_explicit_periodic");
      long n = (long)op.n_;
      std::vector<double> &pdf = h.getPdf();
      J wit;
      wit.i("n", op.n_).b("normalize", op.normalize_).b("periodic", op.periodic_).d("min", op.min_).d("max", op.max_).vec("data_first40", d.flat()).i("data_count", d.count);
      if (h.getMin() != op.min_ || h.getMax() != op.max_) { R.violation("legacy/explicit-range", "explicit range not kept", wit.d("got_min", h.getMin()).d("got_max", h.getMax())); continue; }
      double sum = 0;
      for (double p : pdf) sum += p;
      LShadow s = legacy_shadow(d, op.min_, op.max_, n, false);
      R.nontrivial(vfh::hdouble(vfh::hdouble(vfh::hmix(78, (uint64_t)op.n_), op.min_), d.hi));
      if (fam == 3) {
        double fac = 1.0, N = 0;
        if (op.normalize_) {
          // counts are known only up to the accepted number; use the admissible interval
          double lo = s.accepted, hi = s.accepted + s.ambiguous;
          if (hi == 0) { R.counter("legacy_nothing_accepted"); continue; }
          if (!vfh::close(sum * h.getInterval(), 1.0, 0, 1e-10)) { R.violation("legacy/normalize-integral", "sum*interval != 1 after normalisation", wit.d("integral", sum * h.getInterval())); continue; }
          if (lo != hi) { R.counter("legacy_normalized_with_edge_values_not_judged_per_bin"); continue; }
          N = lo; fac = N * h.getInterval();
        } else {
          if (sum < s.accepted - 1e-9 || sum > s.accepted + s.ambiguous + 1e-9) { R.violation("legacy/conservation", "sum of bins != number of accepted values", wit.d("sum", sum).i("accepted_min", s.accepted).i("edge_band", s.ambiguous)); continue; }
        }
        for (long i = 0; i < n; ++i) {
          double got = pdf[i] * fac, tol = 1e-9 * (double)d.count + 1e-9;
          if (got < s.certain[i] - tol || got > s.certain[i] + s.maybe[i] + tol) {
            R.violation("legacy/bin-content", "bin content differs from the shadow histogram", wit.i("bin", i).d("got", got).d("expected_min", s.certain[i]).d("expected_max", s.certain[i] + s.maybe[i]));
            break;
          }
        }
      } else {
        // periodic legacy mode merges and duplicates the two end bins; every value is accepted:
        // sum - pdf[0] = N (unnormalised). Positions of wrapped values are not part of the statement.
        if (!op.normalize_) {
          if (!vfh::close(sum - pdf[0], (double)d.count, 1e-9, 1e-12))
            R.violation("legacy/periodic-conservation", "periodic legacy histogram lost or duplicated weight (sum - duplicated end bin != number of values)", wit.d("sum", sum).d("bin0", pdf[0]));
          if (pdf[0] != pdf[n - 1]) R.violation("legacy/periodic-endpoints", "periodic end bins differ", wit);
        } else if (!vfh::close(sum * h.getInterval(), 1.0, 0, 1e-10)) {
          R.violation("legacy/normalize-integral", "sum*interval != 1 after normalisation", wit.d("integral", sum * h.getInterval()));
        }
      }
    } else {
      // ---- bond (5,6) and angle (7) scalings on physically meaningful data, automatic range
      bool bond = fam != 7;
      LData d;
      int na = (int)rng.range(1, 3);
      double r0 = rng.uni(0.1, 0.6), sig = rng.uni(0.005, 0.05), a0 = rng.uni(0.6, 2.6), asig = rng.uni(0.02, 0.3);
      bool full_angle = !bond && rng.coin(0.3);
      for (int a = 0; a < na; ++a) {
        std::vector<double> v(rng.range(5, 400));
        for (auto &x : v) {
          if (bond) { x = r0 + sig * rng.normal(); if (x < 0.02) x = 0.02; }
          else if (full_angle) x = rng.uni(0, 3.141592653589793);
          else { x = a0 + asig * rng.normal(); if (x < 0.05) x = 0.05; if (x > 3.09) x = 3.09; }
        }
        if (full_angle && a == 0) { v[0] = 0.0; v.back() = 3.141592653589793; }
        d.arrays.push_back(v);
      }
      d.finish();
      if (d.lo == d.hi) continue;
      op.auto_interval_ = true;
      op.scale_ = bond ? "bond" : "angle";
      Histogram h(op);
      legacy_run(h, d);
      R.eval(bond ? "legacy_scale_bond" : "legacy_scale_angle");
      J wit;
      wit.i("n", op.n_).b("normalize", op.normalize_).s("scale", op.scale_).vec("data_first40", d.flat()).i("data_count", d.count).d("data_min", d.lo).d("data_max", d.hi).d("got_min", h.getMin()).d("got_max", h.getMax());
      if (h.getMin() != d.lo || h.getMax() != d.hi) { R.violation("legacy/autorange", "automatic range is not [min(data), max(data)]", wit); continue; }
      long n = (long)op.n_;
      LShadow s = legacy_shadow(d, d.lo, d.hi, n, false);
      if (s.ambiguous) { R.counter("legacy_scaled_case_with_edge_values_not_judged_per_bin"); continue; }
      std::vector<double> &pdf = h.getPdf();
      std::vector<double> e(n);
      bool singular = false;
      double esum = 0;
      for (long i = 0; i < n; ++i) {
        double x = d.lo + h.getInterval() * (double)i;
        double den = bond ? x * x : std::sin(x);
        if (bond ? std::fabs(x) < 1e-9 : std::fabs(den) < 2e-5) { singular = true; e[i] = NAN; continue; }
        e[i] = s.certain[i] / den;
        esum += e[i];
      }
      double sum = 0;
      for (double p : pdf) sum += p;
      if (op.normalize_ && !vfh::close(sum * h.getInterval(), 1.0, 0, 1e-10)) { R.violation("legacy/normalize-integral", "sum*interval != 1 after normalisation", wit.d("integral", sum * h.getInterval())); continue; }
      if (singular) R.counter("legacy_scaled_singular_bins_dontcare");
      if (singular && op.normalize_) continue;  // the norm contains the don't-care bins
      double fac = op.normalize_ ? 1.0 / (h.getInterval() * esum) : 1.0;
      R.nontrivial(vfh::hdouble(vfh::hdouble(vfh::hmix(79, (uint64_t)op.n_), d.lo), d.hi));
      for (long i = 0; i < n; ++i) {
        if (std::isnan(e[i])) continue;
        if (!vfh::close(pdf[i], e[i] * fac, 1e-12 * std::fabs(esum * fac), 1e-9)) {
          R.violation(bond ? "legacy/scale-bond" : "legacy/scale-angle", "scaled bin content differs from count/r^2 (bond) or count/sin (angle)", wit.i("bin", i).d("got", pdf[i]).d("expected", e[i] * fac));
          break;
        }
      }
    }
  }
}

// legacy cases that may abort: run one per child
static void run_legacyx(vfh::Rng &rng, vfh::Reporter &R, long ncases) {
  static const std::vector<double> MAG = {1e19, 1e25, 1e100, 1e300};
  for (long ic = 0; ic < ncases; ++ic) {
    int fam = (int)(ic % 3);
    Histogram::options_t op;
    op.n_ = rng.range(2, 120);
    op.normalize_ = false;
    LData d = gen_ldata(rng, (int)rng.range(0, 2), 60);
    if (d.lo == d.hi) continue;
    if (fam == 0) {
      // explicit non-periodic range, one extreme finite value: must be discarded
      op.auto_interval_ = false;
      op.min_ = d.lo; op.max_ = d.hi;
      double big = rng.pick(MAG) * (rng.coin() ? 1 : -1);
      LData d2 = d;
      d2.arrays[0].push_back(big);
      d2.finish();
      long expect = d.count;
      ForkRes f = run_forked([&]() {
        Histogram h(op);
        legacy_run(h, d2);
        double sum = 0;
        for (double p : h.getPdf()) sum += p;
        LShadow s = legacy_shadow(d, op.min_, op.max_, (long)op.n_, false);
        if (sum < s.accepted - 1e-9 || sum > s.accepted + s.ambiguous + 1e-9) return std::string("BAD sum of bins ") + std::to_string(sum) + " expected " + std::to_string(expect);
        return std::string("OK");
      });
      R.eval("legacy_huge_value");
      R.nontrivial(vfh::hdouble(vfh::hdouble(vfh::hmix(80, (uint64_t)op.n_), d.lo), big));
      J wit;
      wit.i("n", op.n_).d("min", op.min_).d("max", op.max_).d("extreme_value", big).vec("data_first40", d.flat());
      if (!f.ok) { R.counter("legacy_huge_aborts"); R.violation("legacy/huge-value-cast", "finite value whose bin index exceeds the integer range: process aborted (" + status_str(f) + "): " + report_line(f.err), wit); }
      else if (f.result != "OK") R.violation("legacy/huge-value-cast", f.result, wit);
      else R.counter("legacy_huge_ok");
    } else if (fam == 1) {
      // all-negative data with bond scaling and automatic range (the quantifier names both 'all-negative data
      // sets' and 'the bond/angle scalings'): only the memory half is judged (no abort), the values are not
      op.auto_interval_ = true;
      op.scale_ = "bond";
      LData dn = gen_ldata(rng, 2, 60);
      if (dn.lo == dn.hi) continue;
      ForkRes f = run_forked([&]() { Histogram h(op); legacy_run(h, dn); return std::string("OK"); });
      R.eval("legacy_negative_data_bond_scaling");
      R.nontrivial(vfh::hdouble(vfh::hdouble(vfh::hmix(81, (uint64_t)op.n_), dn.lo), dn.hi));
      if (!f.ok) {
        J wit;
        wit.i("n", op.n_).s("scale", "bond").b("auto_interval", true).vec("data_first40", dn.flat()).i("data_count", dn.count);
        R.violation("legacy/negative-data-bond-scale-out-of-bounds", "all-negative data, automatic range, bond scaling: process aborted (" + status_str(f) + "): " + report_line(f.err), wit);
      } else R.counter("legacy_negative_data_bond_scaling_ok");
    } else {
      // single-valued data with automatic range: zero-length range, not covered by the statement -> observation
      op.auto_interval_ = true;
      LData ds;
      double c = rng.uni(-5, 5);
      ds.arrays.push_back(std::vector<double>((size_t)rng.range(1, 5), c));
      ds.finish();
      ForkRes f = run_forked([&]() { Histogram h(op); legacy_run(h, ds); return std::string("OK"); }, 20);
      R.counter(f.ok ? "obs_legacy_single_valued_data_ok" : "obs_legacy_single_valued_data_aborts");
    }
  }
}

// ------------------------------------------------------------------ reuse of one object
// One HistogramNew object lives through a script of Initialize / fill / Normalize / Clear / re-Initialize steps;
// the shadow histogram is compared after every step. Values within the edge band and values of the two
// suspected-defect families are not used here (they have their own families).
struct Shadow {
  Cfg c;
  LD step = 1;
  double cstep = 1;
  std::vector<double> sh, ab;
  bool nonneg = true, empty = true;
};
static bool reuse_compare(vfh::Reporter &R, HistogramNew &h, Shadow &S, const std::string &script, const std::string &after, const char *key) {
  long n = (long)S.c.nbins;
  if ((long)h.data().size() != n || h.getNBins() != S.c.nbins) {
    R.violation("histnew-reuse/stale-state-after-reinitialize", "bin count differs from the last Initialize after: " + after, J().s("script", script).i("size", (long)h.data().size()).i("expected", n));
    return false;
  }
  for (long i = 0; i < n; ++i) {
    double got = h.data().y(i);
    if (!(std::fabs(got - S.sh[i]) <= 1e-12 * S.ab[i])) {
      R.violation(key, "bin content differs from the shadow histogram after: " + after, J().s("script", script).i("bin", i).d("got", got).d("expected", S.sh[i]));
      return false;
    }
  }
  return true;
}
static void run_reuse(vfh::Rng &rng, vfh::Reporter &R, long ncases) {
  for (long ic = 0; ic < ncases; ++ic) {
    HistogramNew h;
    Shadow S;
    std::ostringstream script;
    script << std::setprecision(17);
    bool ok = true;
    int wmode = rng.coin(0.8) ? (int)rng.range(0, 1) : 2;  // mostly non-negative weights (integral is judged), sometimes mixed sign
    long nsteps_done = 0, n_norm = 0, n_clear = 0, n_reinit = 0;
    auto do_init = [&](bool first) {
      Cfg c = gen_cfg(rng);
      h.setPeriodic(c.periodic);
      h.Initialize(c.min, c.max, c.nbins);
      script << (first ? "" : " | ") << "setPeriodic(" << c.periodic << ") Initialize(" << c.min << "," << c.max << "," << c.nbins << ")";
      S.c = c;
      S.cstep = h.getStep();
      S.step = step_of(c, S.cstep);
      long n = (long)c.nbins;
      S.sh.assign(n, 0.0); S.ab.assign(n, 0.0);
      S.nonneg = true; S.empty = true;
      // layout and emptiness after (re-)Initialize
      bool bad = (long)h.data().size() != n || h.getNBins() != c.nbins || h.getMin() != c.min || h.getMax() != c.max;
      if (!bad && n > 1 && !vfh::close(S.cstep, (double)S.step, 0, 1e-12)) bad = true;
      for (long i = 0; !bad && i < n; ++i) {
        LD want = (LD)c.min + (LD)i * S.step, tol = 1e-9L * (fabsl((LD)c.min) + fabsl((LD)c.max) + (LD)n * S.step);
        if (fabsl((LD)h.data().x(i) - want) > tol || h.data().y(i) != 0.0) bad = true;
      }
      if (bad) { R.violation("histnew-reuse/stale-state-after-reinitialize", "size, step, centres or contents after Initialize do not correspond to the new (min,max,nbins,periodic)", J().s("script", script.str())); ok = false; }
    };
    auto do_fill = [&]() {
      long nv = rng.range(1, 25);
      script << " | Process{";
      for (long q = 0; q < nv; ++q) {
        double v = 0, w = 0;
        Cls cl;
        int guard = 0;
        do { int kind; v = gen_value(rng, S.c, S.cstep, kind); cl = classify(S.c, S.step, v); } while ((cl.huge || cl.trigger || cl.n != 1) && ++guard < 50);
        if (cl.huge || cl.trigger || cl.n != 1) continue;
        w = gen_weight(rng, wmode);
        if (wmode == 0) h.Process(v); else h.Process(v, w);
        script << v << ":" << w << " ";
        if (cl.out[0] != DISCARD) { S.sh[cl.out[0]] += w; S.ab[cl.out[0]] += std::fabs(w); S.empty = false; if (S.sh[cl.out[0]] < 0 || w < 0) S.nonneg = false; }
      }
      script << "}";
      ok = reuse_compare(R, h, S, script.str(), "Process", "histnew-reuse/bin-content");
    };
    auto do_clear = [&]() {
      h.Clear();
      script << " | Clear()";
      std::fill(S.sh.begin(), S.sh.end(), 0.0);
      std::fill(S.ab.begin(), S.ab.end(), 0.0);
      S.nonneg = true; S.empty = true;
      ++n_clear;
      ok = reuse_compare(R, h, S, script.str(), "Clear", "histnew-reuse/bin-content");
      if (ok && h.getStep() != S.cstep) { R.violation("histnew-reuse/stale-state-after-reinitialize", "Clear changed the step", J().s("script", script.str())); ok = false; }
    };
    auto do_normalize = [&]() {
      long n = (long)S.c.nbins;
      bool any = false;
      for (long i = 0; i < n; ++i) any |= (S.sh[i] != 0.0);
      if (!any) { R.counter("reuse_normalize_of_empty_skipped"); return; }
      h.Normalize();
      script << " | Normalize()";
      ++n_norm;
      R.eval("histnew_reuse_normalize");
      long jmax = 0;
      double sum = 0;
      bool neg = false;
      for (long i = 0; i < n; ++i) { if (std::fabs(S.sh[i]) > std::fabs(S.sh[jmax])) jmax = i; neg |= S.sh[i] < 0; }
      for (long i = 0; i < n; ++i) {
        double a = h.data().y(i);
        sum += a;
        double lhs = a * S.sh[jmax], rhs = h.data().y(jmax) * S.sh[i];
        if (!(std::fabs(lhs - rhs) <= 1e-10 * (std::fabs(lhs) + std::fabs(rhs)) + 1e-300)) {
          R.violation("histnew-reuse/normalize-ratios", "Normalize changed bin ratios", J().s("script", script.str()).i("bin", i).d("before", S.sh[i]).d("after", a));
          ok = false;
          return;
        }
      }
      if (neg) R.counter("reuse_normalize_negative_contents_integral_not_judged");
      else if (!vfh::close(sum * h.getStep(), 1.0, 0, 1e-10)) {
        R.violation("histnew-reuse/normalize-integral", "after Normalize sum*step != 1 on a re-used histogram", J().s("script", script.str()).d("integral", sum * h.getStep()).d("step", h.getStep()));
        ok = false;
        return;
      }
      // the shadow follows the observed (verified) contents
      for (long i = 0; i < n; ++i) { S.sh[i] = h.data().y(i); S.ab[i] = std::fabs(S.sh[i]); }
    };
    // the scripts named in the design of the reuse family + random mixes
    static const char *SCRIPTS[] = {"FN", "FNCFN", "FCFN", "FIFN", "FNN", "FNFN", "FNIFN", "FCIFN", "FNCFCFN", "FIFCFN", "FNFCFNN"};
    std::string sc;
    if (ic % 3 != 2) sc = SCRIPTS[(ic / 3 * 2 + ic % 3) % (sizeof SCRIPTS / sizeof *SCRIPTS)];
    else { int len = (int)rng.range(3, 12); for (int q = 0; q < len; ++q) sc += "FFFNCI"[rng.next() % 6]; sc += "FN"; }
    do_init(true);
    for (char op : sc) {
      if (!ok) break;
      if (op == 'F') do_fill();
      else if (op == 'N') do_normalize();
      else if (op == 'C') do_clear();
      else { do_init(false); ++n_reinit; }
      ++nsteps_done;
    }
    R.eval("histnew_reuse_script:" + (ic % 3 != 2 ? sc : std::string("random")));
    R.counter("reuse_steps", nsteps_done);
    if (ok && (n_clear + n_reinit) > 0 && n_norm > 0) R.nontrivial(vfh::hstr(91, script.str()));
    if (ok && R.want_sample() && sc == "FNCFN") R.sample(J().s("script", script.str()).s("result", "shadow histogram matched after every step"));
  }
}

// legacy Histogram: a second ProcessData on the same object must give what a fresh object gives
static void run_legacy_reuse(vfh::Rng &rng, vfh::Reporter &R, long ncases) {
  for (long ic = 0; ic < ncases; ++ic) {
    Histogram::options_t op;
    op.n_ = rng.range(2, 120);
    op.normalize_ = rng.coin();
    op.periodic_ = rng.coin(0.3);
    int sc = (int)rng.range(0, 3);
    op.scale_ = sc == 0 ? "bond" : sc == 1 ? "angle" : "no";
    LData d1 = gen_ldata(rng, sc <= 1 ? 0 : (int)rng.range(0, 2), 80), d2 = gen_ldata(rng, sc <= 1 ? 0 : (int)rng.range(0, 2), 80);
    if (sc == 1) { for (auto *d : {&d1, &d2}) { for (auto &a : d->arrays) for (auto &x : a) x = 0.2 + std::fmod(std::fabs(x), 2.7); d->finish(); } }
    if (d1.lo == d1.hi || d2.lo == d2.hi) continue;
    op.auto_interval_ = rng.coin(0.6);
    if (!op.auto_interval_) { op.min_ = std::min(d1.lo, d2.lo); op.max_ = std::max(d1.hi, d2.hi); op.extend_interval_ = rng.coin(0.3); }
    Histogram reused(op), fresh(op);
    legacy_run(reused, d1);
    legacy_run(reused, d2);
    legacy_run(fresh, d2);
    R.eval("legacy_reuse_second_processdata");
    R.nontrivial(vfh::hdouble(vfh::hdouble(vfh::hmix(92, (uint64_t)op.n_), d1.lo), d2.hi));
    J wit;
    wit.i("n", op.n_).b("normalize", op.normalize_).b("periodic", op.periodic_).s("scale", op.scale_).b("auto_interval", op.auto_interval_).b("extend_interval", op.extend_interval_).d("min", op.min_).d("max", op.max_).vec("first_data_first40", d1.flat()).vec("second_data_first40", d2.flat());
    bool same = reused.getMin() == fresh.getMin() && reused.getMax() == fresh.getMax() && reused.getInterval() == fresh.getInterval() && reused.getPdf().size() == fresh.getPdf().size();
    long badi = -1;
    for (size_t i = 0; same && i < fresh.getPdf().size(); ++i) {
      double a = reused.getPdf()[i], b = fresh.getPdf()[i];
      if (!(a == b || (std::isnan(a) && std::isnan(b)))) { same = false; badi = (long)i; }
    }
    if (!same) {
      R.violation("legacy-reuse/second-processdata-differs", "ProcessData on a re-used Histogram differs from a fresh one on the same data (stale range / contents)", wit.i("bin", badi).d("reused_min", reused.getMin()).d("fresh_min", fresh.getMin()).d("reused_max", reused.getMax()).d("fresh_max", fresh.getMax()));
      continue;
    }
    // Normalize() called again on normalised contents keeps the integral at one
    if (op.normalize_ && op.scale_ == "no") {
      reused.Normalize();
      double sum = 0;
      for (double p : reused.getPdf()) sum += p;
      R.eval("legacy_reuse_normalize_twice");
      if (!vfh::close(sum * reused.getInterval(), 1.0, 0, 1e-10)) R.violation("legacy-reuse/normalize-twice", "second Normalize changes the integral", wit.d("integral", sum * reused.getInterval()));
    }
  }
}

int main(int argc, char **argv) {
  vfh::Args A(argc, argv);
  long seed = A.num("seed", 1), shard = A.num("shard", 0);
  std::string mode = A.str("mode", "main");
  long n = A.num("n", 1000);
  vfh::Reporter R;
  uint64_t s = (uint64_t)seed * 7919 + (uint64_t)shard * 104729;
  if (mode == "main") { vfh::Rng r(s + 13); run_histnew(r, R, n); }
  else if (mode == "wrap") { vfh::Rng r(s + 131); run_wrap(r, R, n); }
  else if (mode == "huge") { vfh::Rng r(s + 1313); run_huge(r, R, n); }
  else if (mode == "legacy") { vfh::Rng r(s + 13131); run_legacy(r, R, n); }
  else if (mode == "legacyx") { vfh::Rng r(s + 131313); run_legacyx(r, R, n); }
  else if (mode == "reuse") { vfh::Rng r(s + 1313131); run_reuse(r, R, n); vfh::Rng r2(s + 13131313); run_legacy_reuse(r2, R, n / 4 + 1); }
  else if (mode == "probe") {
    // replay of one HistogramNew witness: --min --max --nbins --periodic 0|1 --v --w
    Cfg c{A.real("min", 0), A.real("max", 10), (Index)A.num("nbins", 10), A.num("periodic", 1) != 0};
    double v = A.real("v", -10), w = A.real("w", 1);
    HistogramNew probe;
    probe.setPeriodic(c.periodic);
    probe.Initialize(c.min, c.max, c.nbins);
    Cls cl = classify(c, step_of(c, probe.getStep()), v);
    ForkRes f = run_forked([&]() { return probe_child(c, {}, v, w, cl.huge); });
    R.eval("probe");
    R.nontrivial(1); R.nontrivial(2);
    J wit = cfgj(c);
    wit.d("v", v).d("w", w);
    std::string key = cl.huge ? "histnew/huge-value-cast" : cl.trigger ? "histnew/periodic-wrap-index" : "histnew/bin-content";
    if (!f.ok) R.violation(key, "process aborted (" + status_str(f) + "): " + report_line(f.err), wit);
    else if (f.result != "OK") R.violation(key, f.result, wit);
    else R.sample(wit.s("result", "OK"));
  }
  else { std::cerr << "unknown mode\n"; return 3; }
  R.summary();
  return 0;
}
