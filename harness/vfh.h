// Common helpers for the monitor programs (harnesses): seeded PRNG, JSON-lines
// reporting (violations, summary), distinct-case accounting, CLI parsing.
#ifndef VFH_H
#define VFH_H
#include <cmath>
#include <cstdint>
#include <cstdio>
#include <cstdlib>
#include <cstring>
#include <functional>
#include <iomanip>
#include <iostream>
#include <map>
#include <set>
#include <sstream>
#include <string>
#include <unordered_set>
#include <vector>
#include <unistd.h>

namespace vfh {

// ---------------------------------------------------------------- PRNG
struct Rng {
  uint64_t s[4];
  static uint64_t splitmix(uint64_t &x) {
    uint64_t z = (x += 0x9e3779b97f4a7c15ULL);
    z = (z ^ (z >> 30)) * 0xbf58476d1ce4e5b9ULL;
    z = (z ^ (z >> 27)) * 0x94d049bb133111ebULL;
    return z ^ (z >> 31);
  }
  explicit Rng(uint64_t seed = 1) { reseed(seed); }
  void reseed(uint64_t seed) {
    uint64_t x = seed;
    for (auto &v : s) v = splitmix(x);
  }
  static uint64_t rotl(uint64_t x, int k) { return (x << k) | (x >> (64 - k)); }
  uint64_t next() {
    uint64_t r = rotl(s[1] * 5, 7) * 9, t = s[1] << 17;
    s[2] ^= s[0]; s[3] ^= s[1]; s[1] ^= s[2]; s[0] ^= s[3];
    s[2] ^= t; s[3] = rotl(s[3], 45);
    return r;
  }
  double uni() { return (next() >> 11) * (1.0 / 9007199254740992.0); }
  double uni(double a, double b) { return a + (b - a) * uni(); }
  long range(long a, long b) {  // inclusive
    return a + (long)(next() % (uint64_t)(b - a + 1));
  }
  bool coin(double p = 0.5) { return uni() < p; }
  double normal() {
    double u1 = uni(), u2 = uni();
    if (u1 < 1e-300) u1 = 1e-300;
    return std::sqrt(-2 * std::log(u1)) * std::cos(6.283185307179586 * u2);
  }
  double logu(double a, double b) {  // log-uniform
    return std::exp(uni(std::log(a), std::log(b)));
  }
  template <class T>
  const T &pick(const std::vector<T> &v) { return v[next() % v.size()]; }
};

// ---------------------------------------------------------------- hashing
inline uint64_t hmix(uint64_t h, uint64_t v) {
  h ^= v + 0x9e3779b97f4a7c15ULL + (h << 6) + (h >> 2);
  h *= 0xff51afd7ed558ccdULL;
  return h ^ (h >> 33);
}
inline uint64_t hdouble(uint64_t h, double d) {
  uint64_t u;
  std::memcpy(&u, &d, 8);
  return hmix(h, u);
}
inline uint64_t hstr(uint64_t h, const std::string &s) {
  for (unsigned char c : s) h = hmix(h, c);
  return h;
}

// ---------------------------------------------------------------- JSON
inline std::string jesc(const std::string &s) {
  std::ostringstream o;
  for (unsigned char c : s) {
    if (c == '"') o << "\\\"";
    else if (c == '\\') o << "\\\\";
    else if (c == '\n') o << "\\n";
    else if (c == '\t') o << "\\t";
    else if (c == '\r') o << "\\r";
    else if (c < 0x20) o << "\\u" << std::hex << std::setw(4) << std::setfill('0') << (int)c << std::dec;
    else o << c;
  }
  return o.str();
}
struct J {  // tiny json object builder
  std::ostringstream o;
  bool first = true;
  J() { o << "{"; o << std::setprecision(17); }
  void key(const std::string &k) {
    if (!first) o << ",";
    first = false;
    o << "\"" << jesc(k) << "\":";
  }
  J &s(const std::string &k, const std::string &v) { key(k); o << "\"" << jesc(v) << "\""; return *this; }
  J &i(const std::string &k, long long v) { key(k); o << v; return *this; }
  J &d(const std::string &k, double v) {
    key(k);
    if (std::isfinite(v)) o << v; else o << "\"" << v << "\"";
    return *this;
  }
  J &b(const std::string &k, bool v) { key(k); o << (v ? "true" : "false"); return *this; }
  J &raw(const std::string &k, const std::string &json) { key(k); o << json; return *this; }
  template <class V>
  J &vec(const std::string &k, const V &v) {
    key(k);
    o << "[";
    bool f = true;
    for (auto const &x : v) { if (!f) o << ","; f = false; if (std::isfinite((double)x)) o << x; else o << "\"" << (double)x << "\""; }
    o << "]";
    return *this;
  }
  std::string str() const { return o.str() + "}"; }
};

// ---------------------------------------------------------------- reporter
struct Reporter {
  long long evaluations = 0;
  std::unordered_set<uint64_t> distinct;  // hashes of non-trivial cases
  std::map<std::string, long long> families, counters;
  std::vector<std::string> samples;  // json strings
  std::map<std::string, int> vcount;
  int max_per_key = 3;
  size_t max_samples = 4;
  long long violations = 0;

  void eval(const std::string &family, long long n = 1) { evaluations += n; families[family] += n; }
  void nontrivial(uint64_t h) { distinct.insert(h); }
  void counter(const std::string &k, long long n = 1) { counters[k] += n; }
  void counter_max(const std::string &k, long long v) { if (!counters.count(k) || counters[k] < v) counters[k] = v; }
  bool want_sample() const { return samples.size() < max_samples; }
  void sample(const J &j) { if (samples.size() < max_samples) samples.push_back(j.str()); }
  // a violation with a structural key and a json witness
  void violation(const std::string &key, const std::string &what, const J &witness) {
    ++violations;
    if (++vcount[key] > max_per_key) return;
    J j;
    j.s("t", "violation").s("key", key).s("what", what).raw("witness", witness.str());
    std::cout << j.str() << std::endl;
  }
  void inconclusive(const std::string &what) {
    J j;
    j.s("t", "inconclusive").s("what", what);
    std::cout << j.str() << std::endl;
  }
  void summary() {
    J j;
    j.s("t", "summary").i("evaluations", evaluations).i("distinct_nontrivial", (long long)distinct.size());
    {
      J f;
      for (auto &kv : families) f.i(kv.first, kv.second);
      j.raw("families", f.str());
    }
    {
      J f;
      for (auto &kv : counters) f.i(kv.first, kv.second);
      j.raw("counters", f.str());
    }
    std::string sm = "[";
    for (size_t k = 0; k < samples.size(); ++k) sm += (k ? "," : "") + samples[k];
    sm += "]";
    j.raw("samples", sm);
    j.i("violations", violations);
    std::cout << j.str() << std::endl;
  }
};

// ---------------------------------------------------------------- CLI
struct Args {
  std::map<std::string, std::string> kv;
  Args(int argc, char **argv) {
    for (int i = 1; i < argc; ++i) {
      std::string a = argv[i];
      if (a.rfind("--", 0) == 0) {
        std::string k = a.substr(2), v = "1";
        auto eq = k.find('=');
        if (eq != std::string::npos) { v = k.substr(eq + 1); k = k.substr(0, eq); }
        else if (i + 1 < argc && std::string(argv[i + 1]).rfind("--", 0) != 0) v = argv[++i];
        kv[k] = v;
      }
    }
  }
  long num(const std::string &k, long def) const { auto it = kv.find(k); return it == kv.end() ? def : std::atol(it->second.c_str()); }
  double real(const std::string &k, double def) const { auto it = kv.find(k); return it == kv.end() ? def : std::atof(it->second.c_str()); }
  std::string str(const std::string &k, const std::string &def = "") const { auto it = kv.find(k); return it == kv.end() ? def : it->second; }
  bool has(const std::string &k) const { return kv.count(k) > 0; }
};

// current-case marker: printed by the abort handler so that a sanitizer /
// assertion abort still names the case that was running.
inline std::string &current_case() { static std::string s; return s; }
inline void set_case(const std::string &s) { current_case() = s; }
inline void abort_handler(int) {
  const std::string &c = current_case();
  const char *p = "\nVFH-CURRENT-CASE: ";
  (void)!write(2, p, strlen(p));
  (void)!write(2, c.c_str(), c.size());
  (void)!write(2, "\n", 1);
}

inline bool close(double a, double b, double atol, double rtol) {
  if (std::isnan(a) || std::isnan(b)) return false;
  return std::fabs(a - b) <= atol + rtol * std::max(std::fabs(a), std::fabs(b));
}

}  // namespace vfh
#endif
