// C17 monitor: HDF5 checkpoint files return exactly what was stored
// (DESIGN.md §5 C17, §6 item 17).
// Real code: CheckpointFile / CheckpointWriter / CheckpointReader / CptTable and
// AtomContainer<StaticSite>::WriteToCpt/ReadFromCpt (stand-alone xtp subset, system
// HDF5). Oracle: a trivially correct in-memory ledger (path/name -> last value
// written); write -> close -> reopen with a FRESH handle -> read into a FRESH
// destination -> bit-identical (memcmp on doubles).
//
// modes
//   --mode random  --seed S --shard k --n N --dir D [--only h]
//        randomised write/read histories over the families that hold (must be
//        silent for every seed)
//   --mode suspect --case NAME --dir D
//        one deterministic family of DESIGN §6 item 17 (each has its OWN key);
//        run one process per case because a case may abort.
#include "vfh.h"
#include <cfloat>
#include <csignal>
#include <filesystem>
#include <fstream>
#include <votca/xtp/checkpoint.h>
#include <votca/xtp/classicalsegment.h>

using namespace votca::xtp;
using votca::Index;
using vfh::J;
namespace fs = std::filesystem;

// ------------------------------------------------------------------ row type
struct RowT {
  struct data {
    Index id;
    double x;
    char *s;
    int k;
    unsigned u;
    double y;
  };
  static void SetupCptTable(CptTable &t) {
    t.addCol<Index>("id", HOFFSET(data, id));
    t.addCol<double>("x", HOFFSET(data, x));
    t.addCol<std::string>("s", HOFFSET(data, s));
    t.addCol<int>("k", HOFFSET(data, k));
    t.addCol<unsigned>("u", HOFFSET(data, u));
    t.addCol<double>("y", HOFFSET(data, y));
  }
};
// a row type with alignment padding (4-byte columns next to 8-byte ones); same logical columns as RowT
struct RowP {
  struct data {
    int k;
    double x;
    unsigned u;
    Index id;
    char *s;
    double y;
  };
  static void SetupCptTable(CptTable &t) {
    t.addCol<int>("k", HOFFSET(data, k));
    t.addCol<double>("x", HOFFSET(data, x));
    t.addCol<unsigned>("u", HOFFSET(data, u));
    t.addCol<Index>("id", HOFFSET(data, id));
    t.addCol<std::string>("s", HOFFSET(data, s));
    t.addCol<double>("y", HOFFSET(data, y));
  }
};
static_assert(sizeof(RowP::data) > 4 + 8 + 4 + 8 + 8 + 8, "RowP is meant to contain padding");
struct Row {
  Index id;
  double x;
  std::string s;
  int k;
  unsigned u;
  double y;
};
struct SiteRow {  // one StaticSite of a StaticSegment
  Index id;
  std::string element;
  double pos[3];
  Index rank;
  double Q[9];
};

// ------------------------------------------------------------------ values
enum Kind {
  K_INDEX, K_INT, K_UNSIGNED, K_DOUBLE, K_FLOAT, K_BOOL, K_STRING,
  K_VEC_INDEX, K_VEC_DOUBLE, K_VEC_INT, K_VEC_STRING,
  K_MATRIX, K_VECTORXD, K_VECTOR3D, K_VEC_VECTOR3D, K_TABLE, K_SEGMENT, K_NKINDS
};
static const char *kind_name(int k) {
  static const char *n[] = {"scalar_index", "scalar_int", "scalar_unsigned", "scalar_double", "scalar_float", "scalar_bool", "scalar_string",
                            "vector_index", "vector_double", "vector_int", "vector_string",
                            "matrix", "vectorxd", "vector3d", "vector_vector3d", "table", "segment"};
  return n[k];
}

struct Val {
  int kind = K_INDEX;
  long i = 0;
  int i32 = 0;
  unsigned u32 = 0;
  double d = 0;
  float f = 0;
  bool b = false;
  std::string s;
  std::vector<long> vi;
  std::vector<double> vd;
  std::vector<int> vi32;
  std::vector<std::string> vs;
  Eigen::MatrixXd m;  // K_MATRIX, K_VECTORXD (n x 1), K_VECTOR3D (3 x 1)
  std::vector<Eigen::Vector3d> vv3;
  std::vector<Row> rows;
  bool tpadded = false, tcompact = false;  // K_TABLE: row type with padding, compact dataset layout
  std::string segname;
  Index segid = 0;
  std::vector<SiteRow> sites;
};

static bool biteq(const double *a, const double *b, size_t n) { return n == 0 || std::memcmp(a, b, n * sizeof(double)) == 0; }
static bool biteq(double a, double b) { return std::memcmp(&a, &b, 8) == 0; }

static std::string hexd(double d) {
  uint64_t u;
  std::memcpy(&u, &d, 8);
  char b[40];
  snprintf(b, sizeof b, "0x%016llx", (unsigned long long)u);
  return b;
}
static std::string clip(const std::string &s, size_t n = 80) { return s.size() <= n ? s : s.substr(0, n) + "...(" + std::to_string(s.size()) + " bytes)"; }

// short description (shape and leading data) of a value for witnesses
static std::string describe(const Val &v) {
  J j;
  j.s("kind", kind_name(v.kind));
  auto dv = [&](const double *p, size_t n) {
    std::string o = "[";
    for (size_t k = 0; k < n && k < 12; ++k) o += std::string(k ? "," : "") + "\"" + hexd(p[k]) + "\"";
    if (n > 12) o += ",\"...\"";
    return o + "]";
  };
  switch (v.kind) {
    case K_INDEX: j.i("value", v.i); break;
    case K_INT: j.i("value", v.i32); break;
    case K_UNSIGNED: j.i("value", v.u32); break;
    case K_DOUBLE: j.s("bits", hexd(v.d)).d("value", v.d); break;
    case K_FLOAT: j.d("value", v.f); break;
    case K_BOOL: j.b("value", v.b); break;
    case K_STRING: j.i("length", (long)v.s.size()).s("value", clip(v.s)); break;
    case K_VEC_INDEX: j.i("size", (long)v.vi.size()).vec("head", std::vector<long>(v.vi.begin(), v.vi.begin() + std::min<size_t>(v.vi.size(), 12))); break;
    case K_VEC_INT: j.i("size", (long)v.vi32.size()).vec("head", std::vector<int>(v.vi32.begin(), v.vi32.begin() + std::min<size_t>(v.vi32.size(), 12))); break;
    case K_VEC_DOUBLE: j.i("size", (long)v.vd.size()).raw("head_bits", dv(v.vd.data(), v.vd.size())); break;
    case K_VEC_STRING: {
      j.i("size", (long)v.vs.size());
      std::string o = "[";
      for (size_t k = 0; k < v.vs.size() && k < 8; ++k) o += std::string(k ? "," : "") + "\"" + vfh::jesc(clip(v.vs[k], 30)) + "\"";
      j.raw("head", o + "]");
      break;
    }
    case K_MATRIX: case K_VECTORXD: case K_VECTOR3D:
      j.i("rows", v.m.rows()).i("cols", v.m.cols()).raw("colmajor_head_bits", dv(v.m.data(), (size_t)v.m.size()));
      break;
    case K_VEC_VECTOR3D: j.i("size", (long)v.vv3.size()); if (!v.vv3.empty()) j.raw("first_bits", dv(v.vv3[0].data(), 3)); break;
    case K_TABLE: j.i("rows", (long)v.rows.size()).b("padded_row_type", v.tpadded).b("compact_layout", v.tcompact); if (!v.rows.empty()) j.i("row0_id", v.rows[0].id).s("row0_s", clip(v.rows[0].s, 30)).s("row0_x_bits", hexd(v.rows[0].x)); break;
    case K_SEGMENT: j.s("segname", v.segname).i("segid", v.segid).i("sites", (long)v.sites.size()); break;
  }
  return j.str();
}

// bit-exact equality of two values of the same kind; 'why' names the first difference
static bool same(const Val &a, const Val &b, std::string &why) {
  auto fail = [&](const std::string &w) { why = w; return false; };
  if (a.kind != b.kind) return fail("kind");
  switch (a.kind) {
    case K_INDEX: return a.i == b.i || fail("value");
    case K_INT: return a.i32 == b.i32 || fail("value");
    case K_UNSIGNED: return a.u32 == b.u32 || fail("value");
    case K_DOUBLE: return biteq(a.d, b.d) || fail("bits");
    case K_FLOAT: return std::memcmp(&a.f, &b.f, 4) == 0 || fail("bits");
    case K_BOOL: return a.b == b.b || fail("value");
    case K_STRING: return a.s == b.s || fail(a.s.size() != b.s.size() ? "length" : "content");
    case K_VEC_INDEX: return a.vi == b.vi || fail(a.vi.size() != b.vi.size() ? "size" : "content");
    case K_VEC_INT: return a.vi32 == b.vi32 || fail(a.vi32.size() != b.vi32.size() ? "size" : "content");
    case K_VEC_DOUBLE:
      if (a.vd.size() != b.vd.size()) return fail("size");
      return biteq(a.vd.data(), b.vd.data(), a.vd.size()) || fail("content");
    case K_VEC_STRING: return a.vs == b.vs || fail(a.vs.size() != b.vs.size() ? "size" : "content");
    case K_MATRIX: case K_VECTORXD: case K_VECTOR3D:
      if (a.m.rows() != b.m.rows() || a.m.cols() != b.m.cols()) return fail("shape");
      return biteq(a.m.data(), b.m.data(), (size_t)a.m.size()) || fail("content");
    case K_VEC_VECTOR3D:
      if (a.vv3.size() != b.vv3.size()) return fail("size");
      for (size_t k = 0; k < a.vv3.size(); ++k)
        if (!biteq(a.vv3[k].data(), b.vv3[k].data(), 3)) return fail("content");
      return true;
    case K_TABLE:
      if (a.rows.size() != b.rows.size()) return fail("size");
      for (size_t k = 0; k < a.rows.size(); ++k) {
        const Row &x = a.rows[k], &y = b.rows[k];
        if (x.id != y.id || !biteq(x.x, y.x) || x.s != y.s || x.k != y.k || x.u != y.u || !biteq(x.y, y.y)) return fail("content");
      }
      return true;
    case K_SEGMENT:
      if (a.segname != b.segname) return fail("type");
      if (a.segid != b.segid) return fail("id");
      if (a.sites.size() != b.sites.size()) return fail("size");
      for (size_t k = 0; k < a.sites.size(); ++k) {
        const SiteRow &x = a.sites[k], &y = b.sites[k];
        if (x.id != y.id || x.element != y.element || x.rank != y.rank || !biteq(x.pos, y.pos, 3) || !biteq(x.Q, y.Q, 9)) return fail("content");
      }
      return true;
  }
  return fail("?");
}

// ------------------------------------------------------------------ the real code: write / read one value
static void write_val(CheckpointWriter &w, const Val &v, const std::string &name) {
  switch (v.kind) {
    case K_INDEX: { Index x = v.i; w(x, name); break; }
    case K_INT: w(v.i32, name); break;
    case K_UNSIGNED: w(v.u32, name); break;
    case K_DOUBLE: w(v.d, name); break;
    case K_FLOAT: w(v.f, name); break;
    case K_BOOL: w(v.b, name); break;
    case K_STRING: w(v.s, name); break;
    case K_VEC_INDEX: w(v.vi, name); break;
    case K_VEC_DOUBLE: w(v.vd, name); break;
    case K_VEC_INT: w(v.vi32, name); break;
    case K_VEC_STRING: w(v.vs, name); break;
    case K_MATRIX: w(v.m, name); break;
    case K_VECTORXD: { Eigen::VectorXd x = v.m; w(x, name); break; }
    case K_VECTOR3D: { Eigen::Vector3d x = v.m; w(x, name); break; }
    case K_VEC_VECTOR3D: w(v.vv3, name); break;
    case K_TABLE: {
      if (v.tpadded) {
        CptTable t = w.openTable<RowP>(name, v.rows.size(), v.tcompact);
        std::vector<RowP::data> d(v.rows.size());
        for (size_t k = 0; k < d.size(); ++k) {
          const Row &r = v.rows[k];
          d[k].id = r.id; d[k].x = r.x; d[k].s = const_cast<char *>(r.s.c_str()); d[k].k = r.k; d[k].u = r.u; d[k].y = r.y;
        }
        t.write(d);
        break;
      }
      CptTable t = w.openTable<RowT>(name, v.rows.size(), v.tcompact);
      std::vector<RowT::data> d(v.rows.size());
      for (size_t k = 0; k < d.size(); ++k) {
        const Row &r = v.rows[k];
        d[k].id = r.id; d[k].x = r.x; d[k].s = const_cast<char *>(r.s.c_str()); d[k].k = r.k; d[k].u = r.u; d[k].y = r.y;
      }
      t.write(d);
      break;
    }
    case K_SEGMENT: {
      StaticSegment seg(v.segname, v.segid);
      for (const SiteRow &s : v.sites) {
        StaticSite site(s.id, s.element, Eigen::Vector3d(s.pos[0], s.pos[1], s.pos[2]));
        Vector9d q;
        for (int k = 0; k < 9; ++k) q[k] = s.Q[k];
        site.setMultipole(q, s.rank);
        seg.push_back(site);
      }
      CheckpointWriter c = w.openChild(name);
      seg.WriteToCpt(c);
      break;
    }
  }
}

// reads into a FRESH destination (prefill=false) or into a pre-filled one
static Val read_val(CheckpointReader &r, int kind, const std::string &name, bool prefill = false) {
  Val v;
  v.kind = kind;
  switch (kind) {
    case K_INDEX: { Index x = prefill ? 77 : 0; r(x, name); v.i = x; break; }
    case K_INT: { int x = prefill ? 77 : 0; r(x, name); v.i32 = x; break; }
    case K_UNSIGNED: { unsigned x = prefill ? 77 : 0; r(x, name); v.u32 = x; break; }
    case K_DOUBLE: { double x = prefill ? 77.5 : 0; r(x, name); v.d = x; break; }
    case K_FLOAT: { float x = prefill ? 77.5f : 0; r(x, name); v.f = x; break; }
    case K_BOOL: { bool x = prefill; r(x, name); v.b = x; break; }
    case K_STRING: { std::string x = prefill ? "prefilled" : ""; r(x, name); v.s = x; break; }
    case K_VEC_INDEX: { std::vector<long> x; if (prefill) x = {7, 8, 9}; r(x, name); v.vi = x; break; }
    case K_VEC_DOUBLE: { std::vector<double> x; if (prefill) x = {7.5, 8.5, 9.5}; r(x, name); v.vd = x; break; }
    case K_VEC_INT: { std::vector<int> x; if (prefill) x = {7, 8, 9}; r(x, name); v.vi32 = x; break; }
    case K_VEC_STRING: { std::vector<std::string> x; if (prefill) x = {"pre", "filled"}; r(x, name); v.vs = x; break; }
    case K_MATRIX: { Eigen::MatrixXd x; if (prefill) x = Eigen::MatrixXd::Constant(2, 5, 7.5); r(x, name); v.m = x; break; }
    case K_VECTORXD: { Eigen::VectorXd x; if (prefill) x = Eigen::VectorXd::Constant(4, 7.5); r(x, name); v.m = x; break; }
    case K_VECTOR3D: { Eigen::Vector3d x = Eigen::Vector3d::Zero(); if (prefill) x = Eigen::Vector3d::Constant(7.5); r(x, name); v.m = x; break; }
    case K_VEC_VECTOR3D: { std::vector<Eigen::Vector3d> x; if (prefill) x.assign(2, Eigen::Vector3d::Constant(7.5)); r(x, name); v.vv3 = x; break; }
    case K_TABLE: {
      // the file stores named columns: a table may be read through either row type, whichever wrote it
      static unsigned long nread = 0;
      if (++nread % 2) {
        CptTable t = r.openTable<RowP>(name);
        std::vector<RowP::data> d(t.numRows());
        if (!d.empty()) t.read(d);
        for (auto &x : d) {
          Row row{x.id, x.x, x.s ? std::string(x.s) : std::string(), x.k, x.u, x.y};
          free(x.s);
          v.rows.push_back(row);
        }
        break;
      }
      CptTable t = r.openTable<RowT>(name);
      std::vector<RowT::data> d(t.numRows());
      if (!d.empty()) t.read(d);
      for (auto &x : d) {
        Row row{x.id, x.x, x.s ? std::string(x.s) : std::string(), x.k, x.u, x.y};
        free(x.s);
        v.rows.push_back(row);
      }
      break;
    }
    case K_SEGMENT: {
      CheckpointReader c = r.openChild(name);
      StaticSegment seg(c);
      v.segname = seg.getType();
      v.segid = seg.getId();
      for (const StaticSite &s : seg) {
        SiteRow sr;
        sr.id = s.getId(); sr.element = s.getElement(); sr.rank = s.getRank();
        for (int k = 0; k < 3; ++k) sr.pos[k] = s.getPos()[k];
        for (int k = 0; k < 9; ++k) sr.Q[k] = s.Q()[k];
        v.sites.push_back(sr);
      }
      break;
    }
  }
  return v;
}

// ------------------------------------------------------------------ generators
static double bits2d(uint64_t u) { double d; std::memcpy(&d, &u, 8); return d; }
static double gen_double(vfh::Rng &r) {
  int c = (int)r.range(0, 19);
  switch (c) {
    case 0: return 0.0;
    case 1: return -0.0;
    case 2: return DBL_TRUE_MIN;
    case 3: return -DBL_TRUE_MIN * (double)r.range(1, 1000);
    case 4: return DBL_MIN;
    case 5: return DBL_MAX;
    case 6: return -DBL_MAX;
    case 7: return std::numeric_limits<double>::infinity();
    case 8: return -std::numeric_limits<double>::infinity();
    case 9: return std::numeric_limits<double>::quiet_NaN();
    case 10: return bits2d(0x7ff8000000000000ULL | (r.next() & 0x0007ffffffffffffULL));   // quiet NaN with payload
    case 11: return bits2d(0xfff0000000000000ULL | (r.next() & 0x0007ffffffffffffULL) | 1);  // negative signalling NaN with payload
    case 12: return bits2d(r.next());  // any bit pattern
    case 13: return r.logu(1e-300, 1e300) * (r.coin() ? 1 : -1);
    default: return r.normal() * r.logu(1e-6, 1e6);
  }
}
static long gen_index(vfh::Rng &r) {
  int c = (int)r.range(0, 9);
  if (c == 0) return std::numeric_limits<long>::min();
  if (c == 1) return std::numeric_limits<long>::max();
  if (c == 2) return 0;
  if (c == 3) return -1;
  if (c == 4) return (long)r.next();
  return r.range(-1000000, 1000000);
}
static int gen_int(vfh::Rng &r) {
  int c = (int)r.range(0, 7);
  if (c == 0) return std::numeric_limits<int>::min();
  if (c == 1) return std::numeric_limits<int>::max();
  if (c == 2) return 0;
  return (int)(uint32_t)r.next();
}
// strings without NUL bytes: empty, ASCII, UTF-8, long, arbitrary non-NUL bytes
static std::string gen_string(vfh::Rng &r, bool allow_long = true) {
  if (r.coin(0.08)) return "";
  static const std::vector<std::string> utf8 = {"é", "ü", "ß", "λ", "Å", "中", "文", "🙂", "∑", "ñ", " ", "\t", "\n", "\"", "\\", "/", "'", "<", "&"};
  int c = (int)r.range(0, 9);
  std::string s;
  if (c <= 3) {
    long n = r.range(1, 24);
    for (long k = 0; k < n; ++k) s += (char)r.range(32, 126);
  } else if (c <= 6) {
    long n = r.range(1, 16);
    for (long k = 0; k < n; ++k) s += r.coin(0.6) ? r.pick(utf8) : std::string(1, (char)r.range(33, 126));
  } else if (c == 7 && allow_long) {
    long n = r.coin(0.2) ? r.range(60000, 140000) : r.range(200, 5000);  // beyond CptTable::MaxStringSize and 64k
    s.reserve(n);
    for (long k = 0; k < n; ++k) s += (char)('a' + (k * 7 + n) % 26);
  } else {
    long n = r.range(1, 40);
    for (long k = 0; k < n; ++k) s += (char)r.range(1, 255);  // any byte but NUL
  }
  return s;
}
static Eigen::MatrixXd gen_matrix(vfh::Rng &r, long rows, long cols) {
  Eigen::MatrixXd m(rows, cols);
  bool special = r.coin(0.3);
  for (long j = 0; j < cols; ++j)
    for (long i = 0; i < rows; ++i) m(i, j) = special ? gen_double(r) : (double)(i * 1000 + j) + r.uni();  // position-coded: a transposition cannot hide
  return m;
}
static const std::vector<std::string> ELEMENTS = {"H", "C", "N", "O", "S", "Si", "Cl", "F"};

// an overwrite value RELATED to the stored one: equal under operator== (or nearly equal) but different in bits - zeros of
// opposite sign, neighbouring floating-point numbers, NaNs with another payload, a string of the same length, the same
// value again. "Writing a name again replaces the old value" for these too. Returns false if the kind has no such variant.
static bool related_val(vfh::Rng &r, Val &v, std::string &how) {
  auto flipd = [&](double &d) {
    int c = (int)r.range(0, 3);
    uint64_t u;
    std::memcpy(&u, &d, 8);
    if (d == 0.0) { d = std::signbit(d) ? 0.0 : -0.0; how = "zero-of-opposite-sign"; return; }
    if (c == 0) { d = r.coin() ? 0.0 : -0.0; how = "to-a-zero"; return; }  // a later related overwrite then meets a stored zero
    if (c == 1) { u ^= 1; std::memcpy(&d, &u, 8); how = "last-bit-flipped"; return; }
    if (c == 2 && std::isnan(d)) { u ^= 0x5555; std::memcpy(&d, &u, 8); how = "nan-other-payload"; return; }
    how = "same-value-again";
  };
  switch (v.kind) {
    case K_DOUBLE: flipd(v.d); return true;
    case K_FLOAT: {
      uint32_t u;
      std::memcpy(&u, &v.f, 4);
      if (v.f == 0.0f) { u ^= 0x80000000u; how = "zero-of-opposite-sign"; } else { u ^= 1; how = "last-bit-flipped"; }
      std::memcpy(&v.f, &u, 4);
      return true;
    }
    case K_VEC_DOUBLE: if (v.vd.empty()) return false; flipd(v.vd[(size_t)r.range(0, (long)v.vd.size() - 1)]); how = "one-element/" + how; return true;
    case K_MATRIX: case K_VECTORXD: case K_VECTOR3D:
      if (v.m.size() == 0) return false;
      flipd(v.m(r.range(0, v.m.rows() - 1), r.range(0, v.m.cols() - 1))); how = "one-element/" + how; return true;
    case K_VEC_VECTOR3D: if (v.vv3.empty()) return false; flipd(v.vv3[(size_t)r.range(0, (long)v.vv3.size() - 1)][(int)r.range(0, 2)]); how = "one-element/" + how; return true;
    case K_STRING:
      if (v.s.empty()) return false;
      { size_t k = (size_t)r.range(0, (long)v.s.size() - 1); v.s[k] = v.s[k] == 'x' ? 'y' : 'x'; how = "same-length-one-character"; }
      return true;
    case K_BOOL: v.b = !v.b; how = "toggled"; return true;
    case K_INDEX: v.i ^= 1; how = "last-bit-flipped"; return true;
    case K_INT: v.i32 ^= 1; how = "last-bit-flipped"; return true;
    case K_UNSIGNED: v.u32 ^= 1u; how = "last-bit-flipped"; return true;
    default: return false;
  }
}

// a value of the given kind with NON-EMPTY shape; shape_of (optional) forces the same shape as an earlier value
static Val gen_val(vfh::Rng &r, int kind, const Val *shape_of = nullptr) {
  Val v;
  v.kind = kind;
  // empty containers (they hold, see the deterministic edge cases) are part of the random families
  auto len = [&](size_t old, long lo, long hi) { return shape_of ? (long)old : (r.coin(0.06) ? 0L : r.range(lo, hi)); };
  switch (kind) {
    case K_INDEX: v.i = gen_index(r); break;
    case K_INT: v.i32 = gen_int(r); break;
    case K_UNSIGNED: v.u32 = r.coin(0.2) ? 0xffffffffu : (unsigned)r.next(); break;
    case K_DOUBLE: v.d = gen_double(r); break;
    case K_FLOAT: { uint32_t u = (uint32_t)r.next(); if (r.coin()) { v.f = (float)r.normal(); } else std::memcpy(&v.f, &u, 4); break; }
    case K_BOOL: v.b = r.coin(); break;
    case K_STRING: v.s = gen_string(r); break;
    case K_VEC_INDEX: { long n = len(shape_of ? shape_of->vi.size() : 0, 1, 40); for (long k = 0; k < n; ++k) v.vi.push_back(gen_index(r)); break; }
    case K_VEC_INT: { long n = len(shape_of ? shape_of->vi32.size() : 0, 1, 40); for (long k = 0; k < n; ++k) v.vi32.push_back(gen_int(r)); break; }
    case K_VEC_DOUBLE: { long n = len(shape_of ? shape_of->vd.size() : 0, 1, r.coin(0.1) ? 5000 : 40); for (long k = 0; k < n; ++k) v.vd.push_back(gen_double(r)); break; }
    case K_VEC_STRING: { long n = len(shape_of ? shape_of->vs.size() : 0, 1, 12); for (long k = 0; k < n; ++k) v.vs.push_back(gen_string(r, r.coin(0.1))); break; }
    case K_MATRIX: {
      long rows, cols;
      if (shape_of) { rows = shape_of->m.rows(); cols = shape_of->m.cols(); }
      else {
        int c = (int)r.range(0, 9);
        if (c == 0) { rows = 1; cols = r.range(1, 60); }        // 1 x N
        else if (c == 1) { rows = r.range(1, 60); cols = 1; }   // N x 1
        else if (c == 2) { rows = r.range(100, 300); cols = r.range(100, 300); }  // large
        else if (c == 3) { rows = cols = r.range(1, 30); }      // square
        else if (c == 4 && r.coin(0.5)) { rows = 0; cols = r.range(1, 9); }  // 0 x N (0x0 and Nx0 are suspect families of their own)
        else { rows = r.range(1, 40); cols = r.range(1, 40); if (rows == cols) cols++; }  // non-square
      }
      v.m = gen_matrix(r, rows, cols);
      // square matrices as they occur in practice: exactly symmetric, symmetric up to rounding noise (an overlap-like matrix
      // computed numerically), signed zeros, antisymmetric. A layout shortcut keyed on "is symmetric" must not change a bit.
      if (rows == cols && rows >= 2 && r.coin(0.5)) {
        int t = (int)r.range(0, 5);
        Eigen::MatrixXd sy = 0.5 * (v.m + v.m.transpose());
        if (t == 0) v.m = sy;
        else if (t == 1 || t == 2) {
          v.m = sy;
          for (long i = 0; i < rows; ++i)
            for (long j = i + 1; j < cols; ++j)
              if (r.coin(0.4)) v.m(i, j) = std::nextafter(v.m(i, j), r.coin() ? 1e300 : -1e300);  // 1 ulp asymmetry
          if (t == 2) v.m *= 1e-3;  // overlap-like magnitudes
        } else if (t == 3) {
          v.m.setZero();
          v.m(r.range(0, rows - 1), r.range(0, cols - 1)) = -0.0;
          if (r.coin()) v.m(0, cols - 1) = -0.0;
        } else if (t == 4) v.m = 0.5 * (v.m - v.m.transpose());
        else { v.m = sy; v.m(rows - 1, 0) *= (1.0 + 1e-13); }  // relative asymmetry 1e-13 in one element
      }
      break;
    }
    case K_VECTORXD: v.m = gen_matrix(r, shape_of ? shape_of->m.rows() : (r.coin(0.06) ? 0L : r.range(1, r.coin(0.1) ? 3000 : 50)), 1); break;
    case K_VECTOR3D: v.m = gen_matrix(r, 3, 1); break;
    case K_VEC_VECTOR3D: { long n = len(shape_of ? shape_of->vv3.size() : 0, 1, 15); for (long k = 0; k < n; ++k) v.vv3.push_back(Eigen::Vector3d(gen_double(r), gen_double(r), gen_double(r))); break; }
    case K_TABLE: {
      long n = len(shape_of ? shape_of->rows.size() : 0, 1, 30);
      // an existing table is re-opened with the row type and layout it was created with
      v.tpadded = shape_of ? shape_of->tpadded : r.coin(0.5);
      v.tcompact = shape_of ? shape_of->tcompact : r.coin(0.4);
      for (long k = 0; k < n; ++k) v.rows.push_back(Row{gen_index(r), gen_double(r), gen_string(r, r.coin(0.05)), gen_int(r), (unsigned)r.next(), gen_double(r)});
      break;
    }
    case K_SEGMENT: {
      long n = len(shape_of ? shape_of->sites.size() : 0, 1, 12);
      v.segname = shape_of && r.coin() ? shape_of->segname : gen_string(r, false);
      v.segid = r.range(0, 100000);
      for (long k = 0; k < n; ++k) {
        SiteRow s;
        s.id = k; s.element = r.pick(ELEMENTS); s.rank = r.range(0, 2);
        for (double &p : s.pos) p = r.normal() * 10;  // finite: AtomContainer::calcPos averages them
        for (double &q : s.Q) q = gen_double(r);
        v.sites.push_back(s);
      }
      break;
    }
  }
  return v;
}

// ------------------------------------------------------------------ file helpers
static std::string slurp(const std::string &p) {
  std::ifstream f(p, std::ios::binary);
  std::ostringstream o;
  o << f.rdbuf();
  return o.str();
}
static const std::vector<std::vector<std::string>> GROUPS = {
    {}, {"a"}, {"a", "b"}, {"a", "b", "c"}, {"grp with space"}, {"ünï-cødé", "λ"}, {"QMdata"}, {"a", "region_0", "segment7"}};
static const std::vector<std::string> NAMES = {"x", "y", "value", "name with space", "größe", "mos.eigenvalues", "N", "0", "long_name_long_name_long_name_long_name_long_name_long_name_64", "π"};

static std::string gpath(const std::vector<std::string> &g) {
  std::string p = "/";
  for (size_t k = 0; k < g.size(); ++k) p += (k ? "/" : "") + g[k];
  return p;
}
// writer for a nested group: through openChild chains (how VOTCA does it) or through getWriter(path) level by level
static CheckpointWriter writer_for(CheckpointFile &f, const std::vector<std::string> &g, bool via_path) {
  if (g.empty()) return via_path ? f.getWriter("/") : f.getWriter();
  if (via_path) {
    std::string p;
    for (size_t k = 0; k < g.size(); ++k) {
      p += "/" + g[k];
      if (k + 1 == g.size()) return f.getWriter(p);
      f.getWriter(p);
    }
  }
  CheckpointWriter w = f.getWriter();
  std::vector<CheckpointWriter> chain{w};
  for (const auto &c : g) chain.push_back(chain.back().openChild(c));
  return chain.back();
}
static CheckpointReader reader_for(CheckpointFile &f, const std::vector<std::string> &g, bool via_path) {
  if (g.empty()) return via_path ? f.getReader("/") : f.getReader();
  if (via_path) return f.getReader(gpath(g));
  std::vector<CheckpointReader> chain{f.getReader()};
  for (const auto &c : g) chain.push_back(chain.back().openChild(c));
  return chain.back();
}

struct Entry {
  int group;
  std::string name;
  Val v;
  int writes = 1;
};
static std::string entry_json(const Entry &e) {
  J j;
  j.s("group", gpath(GROUPS[e.group])).s("name", e.name).i("times_written", e.writes).raw("expected", describe(e.v));
  return j.str();
}

template <class F>
static bool throws(F f, std::string &what) {
  try {
    f();
  } catch (const std::exception &e) {
    what = e.what();
    return true;
  } catch (const H5::Exception &e) {
    what = "H5::Exception " + e.getDetailMsg();
    return true;
  }
  return false;
}

// ------------------------------------------------------------------ randomised histories
static void run_history(vfh::Reporter &R, long seed, long shard, long h, const std::string &dir) {
  vfh::Rng r((uint64_t)seed * 1000003ULL + (uint64_t)shard * 7919ULL + (uint64_t)h * 104729ULL + 17);
  std::string file = dir + "/h" + std::to_string(shard) + "_" + std::to_string(h) + ".hdf5";
  fs::remove(file);
  // an existing checkpoint may also be reached through a symbolic link (e.g. current.hdf5 -> state.hdf5)
  std::string link = file + ".lnk";
  fs::remove(link);
  auto name_for = [&](bool file_exists) -> std::string {
    if (!file_exists || !r.coin(0.3)) return file;
    std::error_code ec;
    if (!fs::is_symlink(link)) fs::create_symlink(fs::path(file).filename(), link, ec);
    if (ec) return file;
    R.counter("sessions_opened_through_a_symbolic_link");
    return link;
  };
  std::vector<Entry> ledger;
  std::vector<std::string> ops;  // op log for the witness
  J id;
  id.i("seed", seed).i("shard", shard).i("history", h).s("replay", "c17 --mode random --seed <seed> --shard <shard> --only <history> --dir <scratch>");
  auto witness = [&](const Entry *e, const std::string &got, const std::string &why) {
    J w;
    w.raw("case", id.str());
    std::string o = "[";
    for (size_t k = 0; k < ops.size(); ++k) o += std::string(k ? "," : "") + ops[k];
    w.raw("ops", o + "]");
    if (e) w.raw("entry", entry_json(*e));
    if (!got.empty()) w.raw("got", got);
    if (!why.empty()) w.s("difference", why);
    return w;
  };
  vfh::set_case(id.str());
  long sessions = r.range(1, 3);
  uint64_t hh = 1469598103934665603ULL;
  bool nontrivial = false, truncated = false;
  std::string stage = "write";
  try {
    for (long s = 0; s < sessions; ++s) {
      // the first session creates the file (CREATE, or MODIFY on a non-existent file), later ones modify it
      CheckpointAccessLevel lvl = (s == 0 && r.coin(0.7)) ? CheckpointAccessLevel::CREATE : CheckpointAccessLevel::MODIFY;
      if (s == 0 && r.coin(0.15)) {  // CREATE must truncate whatever was there before
        {
          CheckpointFile old(file, CheckpointAccessLevel::CREATE);
          CheckpointWriter w = old.getWriter();
          w(Index(4711), "stale_from_truncated_file");
          w(Eigen::MatrixXd(Eigen::MatrixXd::Ones(3, 2)), "x");
        }
        lvl = CheckpointAccessLevel::CREATE;
        truncated = true;
      }
      std::string fname = name_for(s > 0 && lvl == CheckpointAccessLevel::MODIFY);
      CheckpointFile f = (lvl == CheckpointAccessLevel::MODIFY && r.coin()) ? CheckpointFile(fname) : CheckpointFile(fname, lvl);
      long nw = r.range(1, 14);
      for (long k = 0; k < nw; ++k) {
        bool overwrite = !ledger.empty() && r.coin(0.3);
        Entry e;
        if (overwrite) {
          Entry &old = ledger[r.range(0, (long)ledger.size() - 1)];
          std::string how;
          if (r.coin(0.4) && related_val(r, old.v, how)) R.counter("overwrites_with_related_value/" + how);
          else old.v = gen_val(r, old.v.kind, &old.v);  // same kind, same shape, new content (strings change length)
          old.writes++;
          e = old;
          nontrivial = true;
          R.counter("overwrites_same_shape");
        } else {
          e.group = (int)r.range(0, (long)GROUPS.size() - 1);
          e.name = r.pick(NAMES);
          int kind = (int)r.range(0, K_NKINDS - 1);
          // one kind per (group,name): scalars are attributes, arrays datasets, vector<Vector3d>/segments groups
          for (const Entry &x : ledger)
            if (x.group == e.group && x.name == e.name) { e.name += "_" + std::to_string(ledger.size()); break; }
          e.v = gen_val(r, kind);
          if (kind >= K_VEC_INDEX) nontrivial = true;
        }
        ops.push_back(J().s("op", overwrite ? "overwrite" : "write").i("session", s).s("group", gpath(GROUPS[e.group])).s("name", e.name).raw("value", describe(e.v)).str());
        CheckpointWriter w = writer_for(f, GROUPS[e.group], r.coin(0.3));
        write_val(w, e.v, e.name);
        if (!overwrite) ledger.push_back(e);
        hh = vfh::hmix(hh, (uint64_t)e.v.kind * 131 + e.group);
        hh = vfh::hstr(hh, e.name);
        hh = vfh::hstr(hh, describe(e.v));
      }
    }  // handles closed here
    stage = "read";
    // ---- fresh handle, fresh destinations
    {
      bool ro = r.coin(0.7);
      R.counter(ro ? "read_sessions_READ_level" : "read_sessions_MODIFY_level");
      CheckpointFile f(name_for(true), ro ? CheckpointAccessLevel::READ : CheckpointAccessLevel::MODIFY);
      std::vector<size_t> order(ledger.size());
      for (size_t k = 0; k < order.size(); ++k) order[k] = k;
      for (size_t k = order.size(); k > 1; --k) std::swap(order[k - 1], order[r.range(0, (long)k - 1)]);
      for (size_t k : order) {
        const Entry &e = ledger[k];
        std::string fam = kind_name(e.v.kind);
        R.eval(fam);
        if (e.writes > 1) R.counter("overwritten_entries_judged");
        if (GROUPS[e.group].size() >= 2) R.counter("nested_group_entries_judged");
        CheckpointReader rd = reader_for(f, GROUPS[e.group], r.coin(0.5));
        Val got;
        try {
          got = read_val(rd, e.v.kind, e.name);
        } catch (const std::exception &ex) {
          R.violation(fam + "/read-throws", "reading a written name from a fresh handle failed", witness(&e, "", ex.what()));
          continue;
        }
        std::string why;
        if (!same(e.v, got, why)) {
          std::string key = fam + (e.writes > 1 ? "/overwrite-same-shape-" : "/roundtrip-") + why;
          R.violation(key, "value read from a fresh handle into a fresh destination is not bit-identical to the last value written", witness(&e, describe(got), why));
        }
        // pre-filled destination (families that hold; vector<string> is a suspect family of its own)
        if (e.v.kind != K_VEC_STRING && e.v.kind != K_TABLE && e.v.kind != K_SEGMENT && r.coin(0.25)) {
          R.eval("prefilled_destination");
          try {
            Val g2 = read_val(rd, e.v.kind, e.name, true);
            if (!same(e.v, g2, why)) R.violation("prefilled/" + fam + "-" + why, "reading into a pre-filled destination does not replace its content", witness(&e, describe(g2), why));
          } catch (const std::exception &ex) {
            R.violation("prefilled/" + fam + "-throws", "reading into a pre-filled destination failed", witness(&e, "", ex.what()));
          }
        }
        if (R.want_sample() && h % 37 == 5) R.sample(J().raw("case", id.str()).raw("entry", entry_json(e)).raw("got", describe(got)));
      }
      // ---- names never written must be reported as an error
      for (int t = 0; t < 3; ++t) {
        int g = (int)r.range(0, (long)GROUPS.size() - 1);
        int kind = (int)r.range(0, K_NKINDS - 1);
        std::string name = "never_written_" + std::to_string(r.range(0, 999));
        if (t == 2 && !ledger.empty()) {  // a written name asked for in another group
          const Entry &e = ledger[r.range(0, (long)ledger.size() - 1)];
          name = e.name;
          kind = e.v.kind;
          bool there = false;
          for (const Entry &x : ledger) if (x.group == g && x.name == name) there = true;
          if (there) continue;
        }
        if (t == 1 && truncated) { g = 0; name = r.coin() ? "stale_from_truncated_file" : "x"; kind = name == "x" ? K_MATRIX : K_INDEX;
          bool there = false;
          for (const Entry &x : ledger) if (x.group == g && x.name == name) there = true;
          if (there) continue;
          R.counter("create_truncates_existing_file_judged");
        }
        R.eval("unwritten_name");
        std::string what;
        bool th = throws([&] {
          CheckpointReader rd = reader_for(f, GROUPS[g], r.coin(0.5));
          read_val(rd, kind, name);
        }, what);
        if (!th) R.violation(std::string("unwritten/") + kind_name(kind) + "-no-error", "reading a name that was never written did not report an error", witness(nullptr, "", "").s("group", gpath(GROUPS[g])).s("name", name).s("kind", kind_name(kind)));
      }
    }
    // ---- a READ-level file refuses writers and is byte-identical afterwards
    stage = "readonly";
    if (r.coin(0.5)) {
      std::string before = slurp(file), what;
      long attempts = 0, refused = 0;
      {
        CheckpointFile f(file, CheckpointAccessLevel::READ);
        R.eval("readonly");
        if (!throws([&] { f.getWriter(); }, what)) R.violation("readonly/getWriter-does-not-refuse", "getWriter() on a READ-level file did not throw", witness(nullptr, "", ""));
        int g = (int)r.range(0, (long)GROUPS.size() - 1);
        if (!throws([&] { f.getWriter(gpath(GROUPS[g])); }, what)) R.violation("readonly/getWriter-does-not-refuse", "getWriter(path) on a READ-level file did not throw", witness(nullptr, "", "").s("path", gpath(GROUPS[g])));
        // a writer built directly on a location of the read-only file: existing and new names, every kind
        for (int t = 0; t < 4; ++t) {
          Entry e;
          bool existing = !ledger.empty() && r.coin();
          if (existing) { e = ledger[r.range(0, (long)ledger.size() - 1)]; e.v = gen_val(r, e.v.kind, &e.v); }
          else { e.group = 0; e.name = "ro_new_" + std::to_string(t); e.v = gen_val(r, (int)r.range(0, K_NKINDS - 1)); }
          bool grp_ok = true;
          ++attempts;
          if (throws([&] {
                CheckpointReader rd = [&] { try { return reader_for(f, GROUPS[e.group], false); } catch (...) { grp_ok = false; throw; } }();
                CheckpointWriter w(rd.getLoc(), gpath(GROUPS[e.group]));
                write_val(w, e.v, e.name);
              }, what)) ++refused;
          (void)grp_ok;
        }
      }
      R.counter("readonly_write_attempts", attempts);
      R.counter("readonly_write_attempts_refused", refused);
      if (r.coin(0.6)) {
        // the same file is held open by a second, writable handle of this process while it is opened with READ level:
        // the READ-level handle must still refuse writers (the level is a property of the handle, not of what the HDF5
        // library shares underneath). Only the API refusal is judged here; nothing is written through either handle.
        CheckpointFile fm(file, CheckpointAccessLevel::MODIFY);
        bool opened = true;
        try {
          CheckpointFile f(file, CheckpointAccessLevel::READ);
          R.eval("readonly_second_handle");
          if (!throws([&] { f.getWriter(); }, what)) R.violation("readonly/second-handle/getWriter-does-not-refuse", "getWriter() on a READ-level handle did not throw while a MODIFY-level handle of the same file is open in the process", witness(nullptr, "", ""));
          int g2 = (int)r.range(0, (long)GROUPS.size() - 1);
          if (!throws([&] { f.getWriter(gpath(GROUPS[g2])); }, what)) R.violation("readonly/second-handle/getWriter-does-not-refuse", "getWriter(path) on a READ-level handle did not throw while a MODIFY-level handle of the same file is open in the process", witness(nullptr, "", "").s("path", gpath(GROUPS[g2])));
          if (!throws([&] { f.getWriter("/ro_new_group"); }, what)) R.violation("readonly/second-handle/getWriter-does-not-refuse", "getWriter(new path) on a READ-level handle did not throw while a MODIFY-level handle of the same file is open in the process", witness(nullptr, "", "").s("path", "/ro_new_group"));
        } catch (const std::exception &) { opened = false; } catch (const H5::Exception &) { opened = false; }
        R.counter(opened ? "readonly_second_handle_sessions" : "readonly_second_handle_open_refused_not_judged");
      }
      std::string after = slurp(file);
      if (after != before) R.violation("readonly/file-modified", "a file opened with READ level is not byte-identical afterwards", witness(nullptr, "", "").i("bytes_before", (long)before.size()).i("bytes_after", (long)after.size()));
      // READ on a missing file must be an error, and must not create it
      std::string missing = file + ".missing";
      R.eval("readonly");
      if (!throws([&] { CheckpointFile f2(missing, CheckpointAccessLevel::READ); }, what)) R.violation("readonly/missing-file-no-error", "opening a non-existent file with READ level did not throw", witness(nullptr, "", ""));
      if (fs::exists(missing)) { R.violation("readonly/missing-file-created", "opening a non-existent file with READ level created it", witness(nullptr, "", "")); fs::remove(missing); }
    }
  } catch (const std::exception &ex) {
    R.violation("history/" + stage + "-throws", "a write/read history over supported values failed with an exception", witness(nullptr, "", ex.what()));
  } catch (const H5::Exception &ex) {
    R.violation("history/" + stage + "-throws-raw-h5", "a raw H5::Exception escaped the checkpoint API", witness(nullptr, "", ex.getDetailMsg()));
  }
  if (nontrivial) R.nontrivial(hh);
  R.counter("histories");
  fs::remove(link);
  fs::remove(file);
}

// ------------------------------------------------------------------ deterministic suspect / edge families
// One sequence: values written one after the other under the same name (each in
// its own session when 'reopen'), then a fresh handle reads into a fresh (or
// pre-filled) destination and must find the LAST value.
struct Seq {
  std::string label;
  std::vector<Val> writes;
  int read_kind = -1;  // default: kind of the last write
  bool prefill = false;
};
static Val mk(int kind) { Val v; v.kind = kind; return v; }
static Val mat(long r, long c, double base = 0) {
  Val v = mk(K_MATRIX);
  v.m.resize(r, c);
  for (long j = 0; j < c; ++j) for (long i = 0; i < r; ++i) v.m(i, j) = base + (double)(i * 100 + j) + 0.25;
  return v;
}
static Val vxd(long n, double base = 0) { Val v = mat(n, 1, base); v.kind = K_VECTORXD; return v; }
static Val vdbl(long n, double base = 0) { Val v = mk(K_VEC_DOUBLE); for (long k = 0; k < n; ++k) v.vd.push_back(base + (double)k + 0.5); return v; }
static Val vidx(long n, long base = 0) { Val v = mk(K_VEC_INDEX); for (long k = 0; k < n; ++k) v.vi.push_back(base + k); return v; }
static Val vint(long n, int base = 0) { Val v = mk(K_VEC_INT); for (long k = 0; k < n; ++k) v.vi32.push_back(base + (int)k); return v; }
static Val vstr(std::vector<std::string> s) { Val v = mk(K_VEC_STRING); v.vs = std::move(s); return v; }
static Val vv3(long n, double base = 0) { Val v = mk(K_VEC_VECTOR3D); for (long k = 0; k < n; ++k) v.vv3.push_back(Eigen::Vector3d(base + (double)k, base + (double)k + 0.25, base + (double)k + 0.5)); return v; }
static Val tab(long n, long base = 0, const std::string &s = "row") {
  Val v = mk(K_TABLE);
  for (long k = 0; k < n; ++k) v.rows.push_back(Row{base + k, (double)(base + k) + 0.5, s.empty() ? s : s + std::to_string(base + k), (int)k, (unsigned)k, -(double)k});
  return v;
}
static Val seg(long n, const std::string &name = "mol", long base = 0) {
  Val v = mk(K_SEGMENT);
  v.segname = name; v.segid = 3;
  for (long k = 0; k < n; ++k) {
    SiteRow s;
    s.id = k; s.element = (k % 2) ? "C" : "H"; s.rank = k % 3;
    for (int a = 0; a < 3; ++a) s.pos[a] = (double)(base + k) + 0.1 * a;
    for (int a = 0; a < 9; ++a) s.Q[a] = (double)(base + k) * 10 + a;
    v.sites.push_back(s);
  }
  return v;
}
static Val sidx(long x) { Val v = mk(K_INDEX); v.i = x; return v; }
static Val sdbl(double x) { Val v = mk(K_DOUBLE); v.d = x; return v; }
static Val sstr(const std::string &x) { Val v = mk(K_STRING); v.s = x; return v; }

static std::map<std::string, std::vector<Seq>> suspect_cases() {
  std::map<std::string, std::vector<Seq>> C;
  // --- overwrite with a different shape (DESIGN §6 item 17): one key per container kind
  C["overwrite/different-shape/matrix"] = {{"4x4 then 2x3", {mat(4, 4), mat(2, 3, 1000)}}, {"2x2 then 3x5", {mat(2, 2), mat(3, 5, 1000)}}, {"2x6 then 3x4 (same count)", {mat(2, 6), mat(3, 4, 1000)}}, {"3x3 then 3x1", {mat(3, 3), mat(3, 1, 1000)}}};
  C["overwrite/different-shape/vectorxd"] = {{"5 then 2", {vxd(5), vxd(2, 1000)}}, {"2 then 5", {vxd(2), vxd(5, 1000)}}};
  C["overwrite/different-shape/vector_double"] = {{"5 then 2", {vdbl(5), vdbl(2, 1000)}}, {"2 then 5", {vdbl(2), vdbl(5, 1000)}}};
  C["overwrite/different-shape/vector_index"] = {{"5 then 2", {vidx(5), vidx(2, 1000)}}, {"2 then 5", {vidx(2), vidx(5, 1000)}}};
  C["overwrite/different-shape/vector_string"] = {{"3 then 1", {vstr({"a", "b", "c"}), vstr({"z"})}}, {"1 then 3", {vstr({"a"}), vstr({"x", "y", "z"})}}};
  C["overwrite/different-shape/vector_vector3d"] = {{"4 then 2", {vv3(4), vv3(2, 1000)}}, {"2 then 4", {vv3(2), vv3(4, 1000)}}};
  C["overwrite/different-shape/table"] = {{"4 rows then 2", {tab(4), tab(2, 1000)}}, {"2 rows then 4", {tab(2), tab(4, 1000)}}};
  C["overwrite/different-shape/segment"] = {{"4 sites then 2", {seg(4), seg(2, "mol", 1000)}}, {"2 sites then 4", {seg(2), seg(4, "mol", 1000)}}};
  // --- overwrite with a different kind under the same name
  C["overwrite/different-kind/scalar"] = {{"Index 7 then double 2.5", {sidx(7), sdbl(2.5)}}, {"double 2.5 then Index 2^60+1", {sdbl(2.5), sidx((1L << 60) + 1)}}, {"Index 7 then string", {sidx(7), sstr("seven")}}, {"string then double", {sstr("seven"), sdbl(7.5)}}};
  C["overwrite/different-kind/dataset"] = {{"vector<double> then vector<Index> (same length)", {vdbl(3), vidx(3, (1L << 60) + 1)}}, {"vector<Index> then vector<double> (same length)", {vidx(3), vdbl(3, 0.25)}}, {"vector<double> then vector<string>", {vdbl(3), vstr({"a", "b", "c"})}}};
  // --- empty shapes
  C["matrix/empty-shape-0x0"] = {{"0x0", {mat(0, 0)}}};
  C["matrix/empty-shape-Nx0"] = {{"3x0", {mat(3, 0)}}, {"1x0", {mat(1, 0)}}};
  C["matrix/empty-shape-0xN"] = {{"0x3", {mat(0, 3)}}, {"0x1", {mat(0, 1)}}};
  C["vectorxd/empty"] = {{"size 0", {vxd(0)}}};
  C["vector_double/empty"] = {{"size 0", {vdbl(0)}}};
  C["vector_index/empty"] = {{"size 0", {vidx(0)}}};
  C["vector_int/empty"] = {{"size 0", {vint(0)}}};
  C["vector_string/empty"] = {{"size 0, fresh destination", {vstr({})}}};
  C["vector_vector3d/empty"] = {{"size 0", {vv3(0)}}};
  C["table/empty"] = {{"0 rows", {tab(0)}}};
  C["segment/empty"] = {{"0 sites", {seg(0)}}};
  C["scalar_string/empty"] = {{"empty string", {sstr("")}}, {"non-empty then empty", {sstr("abc"), sstr("")}}};
  C["vector_string/contains-empty-string"] = {{"{\"\",\"b\"}", {vstr({"", "b"})}}, {"{\"a\",\"\"}", {vstr({"a", ""})}}, {"{\"\"}", {vstr({""})}}};
  C["table/contains-empty-string"] = {{"string column empty", {tab(2, 0, "")}}};
  // --- pre-filled destination, vector<string>
  Seq e1{"stored empty, destination {pre,filled}", {vstr({})}};
  e1.prefill = true;
  C["vector_string/empty-read-leaves-destination"] = {e1};
  Seq e2{"stored {a,b}, destination {pre,filled}", {vstr({"a", "b"})}};
  e2.prefill = true;
  C["vector_string/read-appends-to-prefilled-destination"] = {e2};
  return C;
}

// sub-cases of one suspect family: (sequence, session variant) pairs
static std::vector<std::pair<Seq, int>> subcases(const std::vector<Seq> &qs) {
  std::vector<std::pair<Seq, int>> out;
  for (const Seq &q : qs)
    for (int variant = 0; variant < 2; ++variant) {  // 0: all writes in one session, 1: one session per write
      if (variant == 1 && q.writes.size() < 2) continue;
      out.push_back({q, variant});
    }
  return out;
}

static std::string sub_json(const std::string &cname, const Seq &q, int variant) {
  std::string label = q.label + (variant ? " [one session per write]" : " [single session]");
  std::string wl = "[";
  for (size_t k = 0; k < q.writes.size(); ++k) wl += std::string(k ? "," : "") + describe(q.writes[k]);
  wl += "]";
  J w;
  w.s("case", cname).s("label", label).s("group", "/g").s("name", "v").raw("writes_in_order", wl).b("prefilled_destination", q.prefill).raw("expected", describe(q.writes.back()));
  return w.str();
}

static void run_suspect(vfh::Reporter &R, const std::string &cname, long sub, const std::string &dir) {
  auto C = suspect_cases();
  if (!C.count(cname)) {
    R.inconclusive("unknown suspect case " + cname);
    return;
  }
  auto subs = subcases(C[cname]);
  if (sub < 0 || sub >= (long)subs.size()) {
    R.inconclusive("unknown sub-case of " + cname);
    return;
  }
  const Seq &q = subs[sub].first;
  int variant = subs[sub].second;
  std::string file = dir + "/s_" + std::to_string(getpid()) + ".hdf5";
  fs::remove(file);
  std::string wj = sub_json(cname, q, variant);
  auto W = [&] { J w; w.raw("input", wj); return w; };
  vfh::set_case(wj);
  R.eval(cname);
  R.nontrivial(vfh::hstr(7, wj));
  const Val &last = q.writes.back();
  int rk = q.read_kind >= 0 ? q.read_kind : last.kind;
  std::string stage = "write";
  try {
    if (variant == 0) {
      CheckpointFile f(file, CheckpointAccessLevel::CREATE);
      CheckpointWriter wr = f.getWriter("/g");
      for (const Val &v : q.writes) write_val(wr, v, "v");
    } else {
      for (size_t k = 0; k < q.writes.size(); ++k) {
        CheckpointFile f(file, k == 0 ? CheckpointAccessLevel::CREATE : CheckpointAccessLevel::MODIFY);
        CheckpointWriter wr = f.getWriter("/g");
        write_val(wr, q.writes[k], "v");
      }
    }
    stage = "read";
    CheckpointFile f(file, CheckpointAccessLevel::READ);
    CheckpointReader rd = f.getReader("/g");
    Val got = read_val(rd, rk, "v", q.prefill);
    std::string why;
    if (!same(last, got, why))
      R.violation(cname, "fresh handle does not return the last value written (" + why + " differs)", W().raw("got", describe(got)).s("difference", why));
    else
      R.counter("holds:" + cname);
    R.sample(J().raw("input", wj).raw("got", describe(got)));
  } catch (const std::exception &ex) {
    R.violation(cname, std::string("the ") + stage + " step throws", W().s("stage", stage).s("exception", ex.what()));
  } catch (const H5::Exception &ex) {
    R.violation(cname, std::string("the ") + stage + " step throws a raw H5::Exception", W().s("stage", stage).s("exception", ex.getDetailMsg()));
  }
  fs::remove(file);
  // observation only: a nested path whose parents do not exist
  if (cname == "matrix/empty-shape-0x0") {
    std::string f2 = dir + "/nested_" + std::to_string(getpid()) + ".hdf5";
    try {
      CheckpointFile f(f2, CheckpointAccessLevel::CREATE);
      f.getWriter("/p/q/r");
      R.counter("observation:getWriter_nested_path_with_missing_parents_creates_it");
    } catch (const std::exception &) {
      R.counter("observation:getWriter_nested_path_with_missing_parents_throws");
    }
    fs::remove(f2);
  }
}

int main(int argc, char **argv) {
  vfh::Args A(argc, argv);
  vfh::Reporter R;
  signal(SIGABRT, vfh::abort_handler);
  std::string mode = A.str("mode", "random"), dir = A.str("dir", "");
  if (dir.empty() || dir.rfind("/tmp", 0) == 0) {
    std::cerr << "c17: --dir <scratch directory outside /tmp> is required\n";
    return 3;
  }
  fs::create_directories(dir);
  if (mode == "list") {
    for (auto &kv : suspect_cases()) {
      auto subs = subcases(kv.second);
      for (size_t k = 0; k < subs.size(); ++k) std::cout << J().s("case", kv.first).i("sub", (long)k).raw("input", sub_json(kv.first, subs[k].first, subs[k].second)).str() << "\n";
    }
    return 0;
  }
  if (mode == "suspect") {
    run_suspect(R, A.str("case"), A.num("sub", 0), dir);
  } else {
    long seed = A.num("seed", 1), shard = A.num("shard", 0), n = A.num("n", 100);
    if (A.has("only")) run_history(R, seed, shard, A.num("only", 0), dir);
    else for (long h = 0; h < n; ++h) run_history(R, seed, shard, h, dir);
  }
  R.summary();
  return 0;
}
