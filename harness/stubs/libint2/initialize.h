// stand-in for <libint2/initialize.h> (libint2 is not installed here): lets
// xtp/src/libxtp/parallelxjobcalc.cc be compiled unchanged for the C10 monitor.
#ifndef VF_STUB_LIBINT2_INITIALIZE_H
#define VF_STUB_LIBINT2_INITIALIZE_H
namespace libint2 {
inline void initialize() {}
inline void finalize() {}
}  // namespace libint2
#endif
