// C11 monitor: option handling / Property XML round trip / as<T> (DESIGN.md §5 C11).
//
// Three modes, all run the real code of libvotca_tools under ASan/UBSan:
//   --mode merge     --defaults DIR/ --manifest FILE
//        driver for the Python reference model (lib/c11_oracle.py): every line
//        of the manifest "id \t P|C \t calculator \t user.xml" is executed with
//        the real OptionsHandler::ProcessUserInput (P) / CalculatorOptions (C)
//        and the resolved tree (or the error text) is printed as one JSON line.
//        In addition the child index (Property::map_, "last wins") of every
//        resolved tree is checked against the ordered child list in-process.
//   --mode roundtrip --seed S --shard K --n N --tmp DIR
//        random property trees: operator<< (XML) -> file -> LoadFromXML, compared
//        by names, order, attributes and trimmed values.
//   --mode astable
//        Property::as<T> against an explicit table of literals.
#include "vfh.h"
#include <algorithm>
#include <csignal>
#include <fstream>
#include <votca/tools/optionshandler.h>
#include <votca/tools/property.h>
#include <votca/tools/propertyiomanipulator.h>
#include <votca/tools/tokenizer.h>
#include <votca/tools/types.h>

using namespace votca::tools;
using votca::Index;
using vfh::J;

static vfh::Reporter R;

// ------------------------------------------------------------------ helpers
static std::string trim_ws(const std::string &s) {
  const char *ws = " \t\n\r\v\f";
  size_t a = s.find_first_not_of(ws);
  if (a == std::string::npos) return "";
  size_t b = s.find_last_not_of(ws);
  return s.substr(a, b - a + 1);
}

// attrs: 0 none, 1 all, 2 all but the (bulky) help texts
static void dump(std::ostream &o, const Property &p, int attrs) {
  o << "{\"n\":\"" << vfh::jesc(p.name()) << "\",\"v\":\"" << vfh::jesc(p.value()) << "\"";
  if (attrs) {
    o << ",\"a\":{";
    bool f = true;
    for (auto it = p.firstAttribute(); it != p.lastAttribute(); ++it) {
      if (attrs == 2 && it->first == "help") continue;
      if (!f) o << ",";
      f = false;
      o << "\"" << vfh::jesc(it->first) << "\":\"" << vfh::jesc(it->second) << "\"";
    }
    o << "}";
  }
  o << ",\"c\":[";
  bool f = true;
  for (const Property &c : p) {
    if (!f) o << ",";
    f = false;
    dump(o, c, attrs);
  }
  o << "]}";
}

static std::string dumps(const Property &p, bool attrs = true) {
  std::ostringstream o;
  dump(o, p, attrs);
  return o.str();
}

// child index ("last wins") against the ordered child list, whole tree
static bool index_consistent(const Property &p, std::string &why) {
  std::map<std::string, const Property *> last;
  std::map<std::string, long> cnt;
  for (const Property &c : p) {
    last[c.name()] = &c;
    cnt[c.name()]++;
  }
  if (p.HasChildren() != (p.size() > 0)) {
    why = "HasChildren() disagrees with the child list at '" + p.name() + "'";
    return false;
  }
  for (auto &kv : last) {
    if (kv.first.empty() || kv.first.find('.') != std::string::npos || kv.first.find('*') != std::string::npos ||
        kv.first.find('?') != std::string::npos)
      continue;
    if (!p.exists(kv.first)) {
      why = "exists('" + kv.first + "') is false for a listed child of '" + p.name() + "'";
      return false;
    }
    if (&p.get(kv.first) != kv.second) {
      why = "get('" + kv.first + "') is not the last child of that name under '" + p.name() + "'";
      return false;
    }
    if ((long)p.Select(kv.first).size() != cnt[kv.first]) {
      why = "Select('" + kv.first + "') count differs from the child list under '" + p.name() + "'";
      return false;
    }
  }
  for (const Property &c : p)
    if (!index_consistent(c, why)) return false;
  return true;
}

// ------------------------------------------------------------------ merge driver
static int mode_merge(const vfh::Args &A) {
  std::string defaults = A.str("defaults");
  std::ifstream mf(A.str("manifest"));
  if (!mf) {
    R.inconclusive("cannot open manifest " + A.str("manifest"));
    R.summary();
    return 0;
  }
  // ONE handler object serves every call of this process (different calculators, the same
  // calculator again, different user inputs); each call is repeated on a fresh handler and
  // once more on the shared one: all three must agree exactly (tree with attributes, or error text).
  OptionsHandler handler(defaults);
  std::vector<std::string> history;
  std::string line;
  auto split_commas = [](const std::string &t) {
    std::vector<std::string> v;
    size_t pos = 0;
    while (pos <= t.size()) {
      size_t c = t.find(',', pos);
      std::string w = t.substr(pos, c == std::string::npos ? std::string::npos : c - pos);
      if (!w.empty()) v.push_back(w);
      if (c == std::string::npos) break;
      pos = c + 1;
    }
    return v;
  };
  while (std::getline(mf, line)) {
    if (line.empty()) continue;
    std::vector<std::string> f;
    size_t pos = 0;
    while (true) {
      size_t t = line.find('\t', pos);
      f.push_back(line.substr(pos, t == std::string::npos ? std::string::npos : t - pos));
      if (t == std::string::npos) break;
      pos = t + 1;
    }
    if (f.size() < 4) continue;
    const std::string &id = f[0], &kind = f[1], &calc = f[2], &file = f[3];
    std::vector<std::string> extra = (kind == "A" && f.size() > 4) ? split_commas(f[4]) : std::vector<std::string>();
    vfh::set_case(id + " " + kind + " " + calc + " " + file);
    // one execution: returns true and the tree, or false and the error text
    auto exec = [&](const OptionsHandler &h, Property &res, std::string &err) {
      try {
        if (kind == "C") {
          res = h.CalculatorOptions(calc);
        } else {
          Property user;
          user.LoadFromXML(file);
          res = h.ProcessUserInput(user, calc);
        }
        return true;
      } catch (const std::exception &e) {
        err = e.what();
        return false;
      }
    };
    std::ostringstream o;
    o << "{\"t\":\"case\",\"id\":\"" << vfh::jesc(id) << "\",";
    Property res, res_fresh, res_again;
    std::string err, err_fresh, err_again;
    // additional choices belong to the handler they were given to: a handler WITHOUT them resolves the same input
    // identically before any handler of this case has them and while two other handlers hold them
    Property res_plain0, res_plain1;
    std::string err_plain0, err_plain1;
    bool ok_plain0 = false, ok_plain1 = false;
    if (kind == "A") {
      OptionsHandler plain(defaults);
      ok_plain0 = exec(plain, res_plain0, err_plain0);
    }
    if (kind == "A") handler.setAdditionalChoices(extra);
    bool ok = exec(handler, res, err);
    OptionsHandler fresh(defaults);
    if (kind == "A") fresh.setAdditionalChoices(extra);
    bool ok_fresh = exec(fresh, res_fresh, err_fresh);
    bool ok_again = exec(handler, res_again, err_again);
    if (kind == "A") {
      OptionsHandler plain(defaults);  // created and used while `handler` and `fresh` hold the extra choices
      ok_plain1 = exec(plain, res_plain1, err_plain1);
      R.eval("additional_choices_other_handler");
      std::string a = ok_plain0 ? dumps(res_plain0, true) : "ERR " + err_plain0, b = ok_plain1 ? dumps(res_plain1, true) : "ERR " + err_plain1;
      if (a != b)
        R.violation("reuse/additional-choices-leak-to-other-handler",
                    "a handler that was never given additional choices resolves an input differently while other handlers hold additional choices",
                    J().s("id", id).s("calc", calc).s("user_file", file).s("manifest", A.str("manifest")).s("defaults", defaults)
                        .s("before_any_handler_had_them", a.substr(0, 2000)).s("while_two_other_handlers_hold_them", b.substr(0, 2000)));
      R.counter(ok_plain1 ? "additional_choice_value_accepted_by_plain_handler" : "additional_choice_value_rejected_by_plain_handler");
    }
    if (kind == "A") handler.setAdditionalChoices({});  // later calls must behave like a fresh handler again
    R.eval(kind == "C" ? "driver_calcopts" : kind == "A" ? "driver_process_additional_choices" : "driver_process");
    R.eval("reuse_handler_vs_fresh");
    {
      std::string a = ok ? dumps(res, true) : "ERR " + err, b = ok_fresh ? dumps(res_fresh, true) : "ERR " + err_fresh,
                  c = ok_again ? dumps(res_again, true) : "ERR " + err_again;
      if (a != b || a != c) {
        std::string hist;
        for (size_t k = history.size() > 6 ? history.size() - 6 : 0; k < history.size(); ++k) hist += history[k] + " | ";
        R.violation("reuse/handler-differs-from-fresh",
                    a != b ? "a handler that served earlier calls resolves differently from a fresh handler"
                           : "the same call repeated on one handler gives a different result",
                    J().s("id", id).s("kind", kind).s("calc", calc).s("user_file", file).s("manifest", A.str("manifest"))
                        .s("defaults", defaults).s("earlier_calls_on_this_handler", hist)
                        .s("shared_handler", a.substr(0, 3000)).s("fresh_handler", b.substr(0, 3000)).s("shared_handler_again", c.substr(0, 3000)));
      }
      if (history.size() >= 1) R.nontrivial(vfh::hstr(vfh::hstr(91, id), a));
    }
    history.push_back(kind + ":" + calc + ":" + id);
    if (ok) {
      std::string why;
      if (!index_consistent(res, why)) {
        R.violation("index/last-wins-inconsistent", why,
                    J().s("id", id).s("calc", calc).s("user_file", file).s("tree", dumps(res, false)));
      }
      o << "\"ok\":true,\"tree\":";
      dump(o, res, kind == "C" ? 1 : 2);  // user attributes below unchecked sections are judged
    } else {
      R.counter("driver_errors");
      o << "\"ok\":false,\"err\":\"" << vfh::jesc(err) << "\"";
    }
    if (kind == "A") o << ",\"plain_ok\":" << (ok_plain1 ? "true" : "false");
    o << "}";
    std::cout << o.str() << "\n";
  }
  std::cout.flush();
  R.summary();
  return 0;
}

// ------------------------------------------------------------------ round trip
struct Tree {  // independent mirror of what was put into the Property
  std::string name, value;
  std::map<std::string, std::string> attr;
  std::vector<Tree> kids;
};

static const std::vector<std::string> &utf8_bits() {
  static const std::vector<std::string> v = {"\xC3\xA4", "\xC3\xB6", "\xC3\x9F", "\xE2\x82\xAC", "\xE2\x86\x92",
                                             "\xE6\x97\xA5", "\xE6\x9C\xAC", "\xCE\xBB", "\xC2\xB5", "\xF0\x9F\x98\x80"};
  return v;
}

// content classes: 0 plain, 1 metacharacters
static std::string gen_text(vfh::Rng &r, bool meta, bool inner_ws_tabs_newlines, int maxlen) {
  static const std::string plain = "abcdefghijklmnopqrstuvwxyzABCDEFGHIJKLMNOPQRSTUVWXYZ0123456789_.,:;/+-=()*#@!?%[]{}|~^$";
  static const std::vector<std::string> metas = {"&", "<", ">", "\"", "'", "&amp;", "&lt;", "<b>", "a&b", "]]", "&#38;",
                                                 "< >", "&  &", "<\n>", "& \t <", "x < > y", "row1\nrow2\nrow3"};
  int len = (int)r.range(1, maxlen);
  std::string s;
  for (int i = 0; i < len; ++i) {
    double u = r.uni();
    if (meta && u < 0.25) s += r.pick(metas);
    else if (u < 0.33) s += r.pick(utf8_bits());
    else if (u < 0.45 && i > 0 && i + 1 < len) {
      if (inner_ws_tabs_newlines) {
        int k = (int)r.range(0, 3);
        s += (k == 0 ? " " : k == 1 ? "\t" : k == 2 ? "\n" : "  ");
      } else s += " ";
    } else s += plain[r.next() % plain.size()];
  }
  return s;
}

static std::string gen_name(vfh::Rng &r) {
  static const std::string first = "abcdefghijklmnopqrstuvwxyzABCDEFGHIJKLMNOPQRSTUVWXYZ_";
  static const std::string rest = "abcdefghijklmnopqrstuvwxyzABCDEFGHIJKLMNOPQRSTUVWXYZ_0123456789-";
  std::string s(1, first[r.next() % first.size()]);
  int len = (int)r.range(0, 7);
  for (int i = 0; i < len; ++i) s += rest[r.next() % rest.size()];
  return s;
}

struct GenOpt {
  bool value_meta = false, attr_meta = false, attr_ws = false, mixed = false;
};

static void gen_tree(vfh::Rng &r, Tree &t, int depth, const GenOpt &g, long &nodes, bool &has_meta_value,
                     bool &has_meta_attr, bool &has_ws_attr) {
  ++nodes;
  int na = r.coin(0.5) ? 0 : (int)r.range(1, 3);
  for (int i = 0; i < na; ++i) {
    std::string an = gen_name(r);
    bool m = g.attr_meta && r.coin(0.6);
    std::string av = r.coin(0.1) ? "" : gen_text(r, m, false, 12);
    if (g.attr_ws && r.coin(0.5)) {
      av += (r.coin() ? "\t" : "\n");
      av += "x";
      has_ws_attr = true;
    }
    if (av.find_first_of("&<\"") != std::string::npos) has_meta_attr = true;
    t.attr[an] = av;
  }
  int nk = 0;
  if (depth < 4 && nodes < 40) nk = r.coin(0.35) ? 0 : (int)r.range(1, 4);
  std::vector<std::string> used;
  for (int i = 0; i < nk; ++i) {
    Tree k;
    if (!used.empty() && r.coin(0.3)) k.name = r.pick(used);  // repeated names among siblings
    else k.name = gen_name(r);
    used.push_back(k.name);
    gen_tree(r, k, depth + 1, g, nodes, has_meta_value, has_meta_attr, has_ws_attr);
    t.kids.push_back(k);
  }
  bool leaf = (nk == 0);
  if (leaf || (g.mixed && r.coin(0.4))) {
    int c = (int)r.range(0, 9);
    if (c == 0) t.value = "";
    else if (c == 1) t.value = r.coin() ? "  " : "\n\t ";  // blank
    else {
      bool m = g.value_meta && r.coin(0.6);
      std::string core = gen_text(r, m, true, 16);
      if (core.find_first_of("&<") != std::string::npos || core.find("]]>") != std::string::npos) has_meta_value = true;
      std::string pre = r.coin(0.3) ? (r.coin() ? " " : "\n\t") : "", post = r.coin(0.3) ? (r.coin() ? "  " : "\n") : "";
      t.value = pre + core + post;
    }
  }
}

static void build(Property &p, const Tree &t) {
  for (auto &kv : t.attr) p.setAttribute(kv.first, kv.second);
  for (const Tree &k : t.kids) {
    Property &c = p.add(k.name, k.value);
    build(c, k);
  }
}

static std::string tree_json(const Tree &t) {
  std::ostringstream o;
  o << "{\"n\":\"" << vfh::jesc(t.name) << "\",\"v\":\"" << vfh::jesc(t.value) << "\",\"a\":{";
  bool f = true;
  for (auto &kv : t.attr) {
    if (!f) o << ",";
    f = false;
    o << "\"" << vfh::jesc(kv.first) << "\":\"" << vfh::jesc(kv.second) << "\"";
  }
  o << "},\"c\":[";
  f = true;
  for (auto &k : t.kids) {
    if (!f) o << ",";
    f = false;
    o << tree_json(k);
  }
  o << "]}";
  return o.str();
}

// compares expected mirror with the reloaded Property; returns "" or the first difference
static std::string cmp(const Tree &t, const Property &p, const std::string &path) {
  if (t.name != p.name()) return path + ": name '" + p.name() + "' expected '" + t.name + "'";
  std::string here = path + "/" + t.name;
  if (trim_ws(t.value) != trim_ws(p.value()))
    return here + ": trimmed value '" + trim_ws(p.value()) + "' expected '" + trim_ws(t.value) + "'";
  std::map<std::string, std::string> got;
  for (auto it = p.firstAttribute(); it != p.lastAttribute(); ++it) got[it->first] = it->second;
  if (got != t.attr) {
    for (auto &kv : t.attr) {
      auto it = got.find(kv.first);
      if (it == got.end()) return here + ": attribute '" + kv.first + "' lost";
      if (it->second != kv.second) return here + ": attribute '" + kv.first + "' = '" + it->second + "' expected '" + kv.second + "'";
    }
    return here + ": extra attribute after reload";
  }
  if ((size_t)p.size() != t.kids.size())
    return here + ": " + std::to_string(p.size()) + " children, expected " + std::to_string(t.kids.size());
  size_t i = 0;
  for (const Property &c : p) {
    std::string d = cmp(t.kids[i++], c, here);
    if (!d.empty()) return d;
  }
  return "";
}


// ---- API mutations mirrored on the Tree model (Property::add / add(Property) / deleteChildren / set /
//      getOradd / value() / setAttribute / deleteAttribute)
static void collect(Property &p, Tree &t, std::vector<std::pair<Property *, Tree *>> &out) {
  out.push_back({&p, &t});
  size_t i = 0;
  for (Property &c : p) collect(c, t.kids[i++], out);
}

static std::string mutate(vfh::Rng &r, Property &ptop, Tree &top, bool meta, int nmut) {
  std::string log;
  for (int m = 0; m < nmut; ++m) {
    std::vector<std::pair<Property *, Tree *>> nodes;
    collect(ptop, top, nodes);  // pointers are re-collected after every mutation (vectors may reallocate)
    auto pick = nodes[r.next() % nodes.size()];
    Property &p = *pick.first;
    Tree &t = *pick.second;
    int op = (int)r.range(0, 7);
    if (op == 0) {  // add(key, value)
      Tree k;
      k.name = (!t.kids.empty() && r.coin(0.4)) ? t.kids[r.next() % t.kids.size()].name : gen_name(r);
      k.value = gen_text(r, meta && r.coin(0.5), true, 10);
      p.add(k.name, k.value);
      t.kids.push_back(k);
      log += "add(" + k.name + ") ";
    } else if (op == 1) {  // add(const Property &) with a copy of another subtree
      auto src = nodes[r.next() % nodes.size()];
      if (src.second == &top && nodes.size() > 1) src = nodes[1 + r.next() % (nodes.size() - 1)];
      Property cp = *src.first;  // a copy, so that the source does not alias the destination
      Tree ct = *src.second;
      p.add(cp);
      t.kids.push_back(ct);
      log += "add(copy of " + ct.name + ") ";
    } else if (op == 2) {  // deleteChildren(name == X)
      if (t.kids.empty()) continue;
      std::string nm = t.kids[r.next() % t.kids.size()].name;
      p.deleteChildren([&](const Property &c) { return c.name() == nm; });
      std::vector<Tree> keep;
      for (auto &k : t.kids)
        if (k.name != nm) keep.push_back(k);
      t.kids = keep;
      log += "deleteChildren(" + nm + ") ";
    } else if (op == 3) {  // set(key, value): the last child of that name
      if (t.kids.empty()) continue;
      std::string nm = t.kids[r.next() % t.kids.size()].name;
      std::string v = gen_text(r, meta && r.coin(0.5), true, 10);
      p.set(nm, v);
      for (size_t i = t.kids.size(); i-- > 0;)
        if (t.kids[i].name == nm) { t.kids[i].value = v; break; }
      log += "set(" + nm + ") ";
    } else if (op == 4) {  // getOradd
      std::string nm = (!t.kids.empty() && r.coin(0.5)) ? t.kids[r.next() % t.kids.size()].name : gen_name(r);
      std::string v = gen_text(r, false, false, 6);
      p.getOradd(nm).value() = v;
      bool found = false;
      for (size_t i = t.kids.size(); i-- > 0;)
        if (t.kids[i].name == nm) { t.kids[i].value = v; found = true; break; }
      if (!found) { Tree k; k.name = nm; k.value = v; t.kids.push_back(k); }
      log += "getOradd(" + nm + ") ";
    } else if (op == 5) {  // value()
      if (!t.kids.empty()) continue;
      t.value = gen_text(r, meta && r.coin(0.5), true, 12);
      p.value() = t.value;
      log += "value() ";
    } else if (op == 6) {  // setAttribute
      std::string an = (!t.attr.empty() && r.coin(0.5)) ? t.attr.begin()->first : gen_name(r);
      std::string av = gen_text(r, meta && r.coin(0.5), false, 8);
      p.setAttribute(an, av);
      t.attr[an] = av;
      log += "setAttribute(" + an + ") ";
    } else {  // deleteAttribute
      if (t.attr.empty()) continue;
      std::string an = t.attr.begin()->first;
      p.deleteAttribute(an);
      t.attr.erase(an);
      log += "deleteAttribute(" + an + ") ";
    }
  }
  return log;
}

// exact comparison (values untrimmed) of a Property with the mirror
static std::string cmp_exact(const Tree &t, const Property &p, const std::string &path) {
  std::string here = path + "/" + t.name;
  if (t.name != p.name()) return here + ": name '" + p.name() + "'";
  if (t.value != p.value()) return here + ": value '" + p.value() + "' expected '" + t.value + "'";
  std::map<std::string, std::string> got;
  for (auto it = p.firstAttribute(); it != p.lastAttribute(); ++it) got[it->first] = it->second;
  if (got != t.attr) return here + ": attributes differ";
  if ((size_t)p.size() != t.kids.size()) return here + ": " + std::to_string(p.size()) + " children, expected " + std::to_string(t.kids.size());
  size_t i = 0;
  for (const Property &c : p) {
    std::string d = cmp_exact(t.kids[i++], c, here);
    if (!d.empty()) return d;
  }
  return "";
}

static std::string print_level0(PropertyIOManipulator &iom0, const Property &p) {
  std::ostringstream os;
  os << iom0 << p;
  return os.str();
}

static int mode_roundtrip(const vfh::Args &A) {
  long seed = A.num("seed", 1), shard = A.num("shard", 0), n = A.num("n", 100);
  std::string tmp = A.str("tmp", ".");
  vfh::Rng rng((uint64_t)seed * 1000003ULL + (uint64_t)shard * 7919ULL + 11);
  std::string file = tmp + "/rt_" + std::to_string(shard) + ".xml";
  PropertyIOManipulator iom1(PropertyIOManipulator::XML, 1, "");
  PropertyIOManipulator iom0(PropertyIOManipulator::XML, 0, "");
  for (long ic = 0; ic < n; ++ic) {
    // families: plain 40 %, value metachar 20 %, attribute metachar 20 %, mixed content 10 %, attr whitespace 10 %
    int fsel = (int)(ic % 14);
    GenOpt g;
    const char *fam = "rt_plain";
    if (fsel >= 4 && fsel < 6) { g.value_meta = true; fam = "rt_value_metachar"; }
    else if (fsel >= 6 && fsel < 8) { g.attr_meta = true; fam = "rt_attr_metachar"; }
    else if (fsel == 8) { g.mixed = true; fam = "rt_mixed_content"; }
    else if (fsel == 9) { g.attr_ws = true; fam = "rt_attr_tab_newline"; }
    else if (fsel == 10) { fam = "rt_mutated"; }
    else if (fsel == 11) { g.value_meta = true; g.attr_meta = true; fam = "rt_mutated"; }
    else if (fsel == 12) { g.value_meta = (ic % 28 == 12); fam = "copy"; }
    else if (fsel == 13) { g.value_meta = (ic % 28 == 13); fam = "rt_loaded_twice"; }
    Tree top;
    top.name = gen_name(rng);
    long nodes = 0;
    bool mv = false, ma = false, wa = false;
    gen_tree(rng, top, 1, g, nodes, mv, ma, wa);
    Property root;
    Property &ptop = root.add(top.name, top.value);
    build(ptop, top);
    std::string mutlog;
    if (fsel == 10 || fsel == 11) {
      mutlog = mutate(rng, ptop, top, g.value_meta, (int)rng.range(1, 8));
      R.counter("rt_mutations_applied", (long long)std::count(mutlog.begin(), mutlog.end(), ' '));
      std::string why;
      if (!index_consistent(ptop, why))
        R.violation("index/last-wins-inconsistent", "after API mutations: " + why,
                    J().s("family", fam).i("seed", seed).i("shard", shard).i("case", ic).s("mutations", mutlog).raw("tree", tree_json(top)));
      std::string d = cmp_exact(top, ptop, "");
      if (!d.empty())
        R.violation("mutate/tree-differs-from-model", "add/deleteChildren/set/getOradd leave a tree that differs from the expected one",
                    J().s("family", fam).i("seed", seed).i("shard", shard).i("case", ic).s("mutations", mutlog).s("got", d).raw("tree", tree_json(top)));
    }
    if (fsel == 12) {
      // copy constructor / assignment: equal and independent trees
      R.eval("copy");
      R.nontrivial(vfh::hstr(12, tree_json(top)));
      Tree snap = top;  // state at the time of copying
      Property c1(ptop);
      Property c2;
      c2.add("old", "content").add("x", "y");
      c2 = ptop;
      Property c3 = root;  // copy of the parent: the child inside must be a copy as well
      auto w = [&](const std::string &got, const std::string &log) {
        J j;
        j.s("family", "copy").i("seed", seed).i("shard", shard).i("case", ic).s("got", got).s("mutations", log).raw("tree_when_copied", tree_json(snap));
        return j;
      };
      std::string d = cmp_exact(snap, c1, "");
      if (d.empty()) d = cmp_exact(snap, c2, "");
      if (d.empty() && c3.size() == 1) d = cmp_exact(snap, *c3.begin(), "");
      if (!d.empty()) R.violation("copy/not-equal", "a copied Property differs from its source", w(d, ""));
      if (print_level0(iom0, c1) != print_level0(iom0, ptop)) R.violation("copy/not-equal", "a copied Property prints differently", w("printed text differs", ""));
      std::string log1 = mutate(rng, ptop, top, g.value_meta, (int)rng.range(2, 8));  // change the original
      d = cmp_exact(snap, c1, "");
      if (d.empty()) d = cmp_exact(snap, c2, "");
      if (d.empty() && c3.size() == 1) d = cmp_exact(snap, *c3.begin(), "");
      if (!d.empty()) R.violation("copy/not-independent", "changing the source changed a copy", w(d, log1));
      d = cmp_exact(top, ptop, "");
      if (!d.empty()) R.violation("mutate/tree-differs-from-model", "mutations on the source", w(d, log1));
      Tree t2 = snap;
      std::string log2 = mutate(rng, c2, t2, g.value_meta, (int)rng.range(2, 8));  // change a copy
      d = cmp_exact(top, ptop, "");
      if (d.empty()) d = cmp_exact(snap, c1, "");
      if (!d.empty()) R.violation("copy/not-independent", "changing a copy changed the source or another copy", w(d, log2));
      d = cmp_exact(t2, c2, "");
      if (!d.empty()) R.violation("mutate/tree-differs-from-model", "mutations on a copy", w(d, log2));
      std::string why;
      if (!index_consistent(c2, why) || !index_consistent(c1, why) || !index_consistent(ptop, why))
        R.violation("index/last-wins-inconsistent", "after copying: " + why, w(why, log1 + "|| " + log2));
      continue;
    }
    if (fsel == 13) {
      // ONE Property object loaded from two different files one after the other. The unchanged code appends
      // the second document as a second top node; a loader that replaces the content would be as good for the
      // statement. Judged: each loaded document is the tree that was written (no leak between the two parses).
      R.eval("rt_loaded_twice");
      Tree top2;
      top2.name = gen_name(rng);
      long nodes2 = 0;
      bool x1 = false, x2 = false, x3 = false;
      gen_tree(rng, top2, 1, g, nodes2, x1, x2, x3);
      Property root2;
      Property &ptop2 = root2.add(top2.name, top2.value);
      build(ptop2, top2);
      std::string xa = print_level0(iom0, ptop), xb = print_level0(iom0, ptop2), xa2 = print_level0(iom0, ptop);
      std::string file2 = file + ".b";
      { std::ofstream f(file, std::ios::binary | std::ios::trunc); f << xa; }
      { std::ofstream f(file2, std::ios::binary | std::ios::trunc); f << xb; }
      R.nontrivial(vfh::hstr(13, xa + xb));
      J w;
      w.s("family", "rt_loaded_twice").i("seed", seed).i("shard", shard).i("case", ic).s("first_xml", xa).s("second_xml", xb);
      if (xa != xa2) R.violation("reuse/print-twice-differs", "printing the same Property twice gives different text", w);
      std::string d;
      try {
        Property q;
        q.LoadFromXML(file);
        q.LoadFromXML(file2);
        if (q.size() == 2) {
          auto it = q.begin();
          d = cmp(top, *it, "");
          ++it;
          if (d.empty()) d = cmp(top2, *it, "");
          R.counter("loaded_twice_second_document_appended");
        } else if (q.size() == 1) {
          d = cmp(top2, *q.begin(), "");
          R.counter("loaded_twice_second_document_replaces");
        } else d = "object holds " + std::to_string(q.size()) + " top nodes after two loads";
        std::string why;
        if (d.empty() && !index_consistent(q, why)) d = why;
        // and the same file twice
        Property q2;
        q2.LoadFromXML(file);
        q2.LoadFromXML(file);
        for (const Property &c : q2) {
          std::string dd = cmp(top, c, "");
          if (d.empty() && !dd.empty()) d = "same file twice: " + dd;
        }
      } catch (const std::exception &e) {
        d = std::string("exception: ") + e.what();
      }
      std::remove(file2.c_str());
      if (!d.empty()) R.violation("reuse/property-loaded-twice", "a Property object that is loaded a second time does not hold the written trees", w.s("got", d));
      continue;
    }
    bool level0 = rng.coin(0.3);
    std::ostringstream os;
    if (level0) os << iom0 << ptop;  // print the named top node itself
    else os << iom1 << root;         // as votca_property does: skip the unnamed root
    std::string xml = os.str();
    vfh::set_case(std::string(fam) + " " + tree_json(top));
    {
      std::ofstream f(file, std::ios::binary | std::ios::trunc);
      f << xml;
    }
    R.eval(fam);
    uint64_t h = vfh::hstr(7, xml);
    if (nodes >= 2) R.nontrivial(h);
    R.counter("rt_nodes", nodes);
    auto wit = [&](const std::string &got) {
      J w;
      w.s("family", fam).i("seed", seed).i("shard", shard).i("case", ic).b("printed_named_top_at_level0", level0)
          .raw("tree", tree_json(top)).s("printed_xml", xml).s("got", got).s("api_mutations", mutlog);
      return w;
    };
    std::string diff, err;
    Property back;
    try {
      back.LoadFromXML(file);
      if (back.size() != 1) diff = "reloaded document has " + std::to_string(back.size()) + " top nodes";
      else diff = cmp(top, *back.begin(), "");
    } catch (const std::exception &e) {
      err = e.what();
    }
    bool bad = !err.empty() || !diff.empty();
    std::string got = err.empty() ? diff : "LoadFromXML of the printed text failed: " + err;
    if (g.attr_ws) {
      // XML attribute-value normalisation turns literal tab/newline into a space unless the writer
      // emits character references; the statement does not single this out -> observation only
      if (wa && bad) { R.counter("observed_attr_tab_newline_not_preserved"); bad = false; }
      else if (wa) R.counter("observed_attr_tab_newline_preserved");
    }
    if (bad) {
      if (mv || ma) {
        R.violation("xmlprint/metachar-not-escaped",
                    "a Property whose value/attribute contains XML metacharacters is printed unescaped: the output is "
                    "not the same tree when loaded again",
                    wit(got).b("meta_in_value", mv).b("meta_in_attribute", ma));
      } else {
        R.violation(std::string("roundtrip/") + fam + "/tree-differs", "print -> LoadFromXML is not the identity", wit(got));
      }
    } else {
      if (mv) R.counter("rt_value_metachar_survived");
      if (ma) R.counter("rt_attr_metachar_survived");
    }
    if (R.want_sample() && ic % 37 == 5) R.sample(J().s("family", fam).s("printed_xml", xml.substr(0, 400)).s("verdict", bad ? "differs" : "identical"));
  }
  std::remove(file.c_str());
  R.summary();
  return 0;
}

// ------------------------------------------------------------------ as<T> literal tables
template <class T>
static bool try_as(const std::string &lit, T &out, std::string &err) {
  Property p("x", lit, "");
  try {
    out = p.as<T>();
    return true;
  } catch (const std::exception &e) {
    err = e.what();
    return false;
  }
}

template <class T, class EQ>
static void judge(const char *type, const std::string &lit, bool accept, const T &expect, EQ eq) {
  T got{};
  std::string err;
  vfh::set_case(std::string("as<") + type + ">('" + lit + "')");
  bool ok = try_as<T>(lit, got, err);
  std::string fam = std::string("as_") + type;
  R.eval(fam);
  R.nontrivial(vfh::hstr(vfh::hstr(3, type), lit));
  if (ok != accept) {
    R.violation(fam + (accept ? "/documented-literal-rejected" : "/undocumented-literal-accepted"),
                accept ? "as<T> throws for a literal it must accept" : "as<T> accepts a literal it must reject",
                J().s("type", type).s("literal", lit).b("accepted", ok).s("error", err));
  } else if (ok && !eq(got, expect)) {
    R.violation(fam + "/wrong-value", "as<T> returns a wrong value", J().s("type", type).s("literal", lit));
  }
}

static int mode_astable(const vfh::Args &) {
  auto eqb = [](bool a, bool b) { return a == b; };
  auto eqi = [](Index a, Index b) { return a == b; };
  auto eqd = [](double a, double b) { return a == b || std::fabs(a - b) <= 1e-15 * std::fabs(b); };
  auto eqs = [](const std::string &a, const std::string &b) { return a == b; };
  // bool: documented restrictive set (tokenizer.h convert_impl): true/false in any case, 1, 0; value is trimmed by as<>
  for (auto &s : {"true", "TRUE", "True", "tRuE", "1", " true ", "\n1\t", "true\n"}) judge<bool>("bool", s, true, true, eqb);
  for (auto &s : {"false", "FALSE", "False", "fAlSe", "0", " false", "\t0\n"}) judge<bool>("bool", s, true, false, eqb);
  for (auto &s : {"", " ", "yes", "no", "on", "off", "2", "-1", "10", "01", "00", "1.0", "0.0", "t", "f", "T", "truee", "tru",
                  "true false", "1 0", "true,", "nan", "+1"})
    judge<bool>("bool", s, false, false, eqb);
  // integer (Index): optional sign + decimal digits
  struct IL { const char *s; Index v; };
  for (auto &c : std::vector<IL>{{"0", 0}, {"7", 7}, {"-5", -5}, {"+7", 7}, {" 42 ", 42}, {"\n-13\t", -13}, {"123456789012", 123456789012LL},
                                 {"007", 7}, {"9223372036854775807", 9223372036854775807LL}, {"-9223372036854775808", (Index)(-9223372036854775807LL - 1)}})
    judge<Index>("int", c.s, true, c.v, eqi);
  for (auto &s : {"", " ", "abc", "1.5", "1.0", "1e3", "0x10", "12abc", "1 2", "1,2", "--1", "+-1", "- 1", "9223372036854775808",
                  "-9223372036854775809", "1.", ".5", "one", "1_000", "true"})
    judge<Index>("int", s, false, 0, eqi);
  // floating point
  struct DL { const char *s; double v; };
  for (auto &c : std::vector<DL>{{"0", 0.0}, {"1", 1.0}, {"-1.5", -1.5}, {"+2.5", 2.5}, {"1e-3", 1e-3}, {"1E10", 1e10}, {"1e+5", 1e5},
                                 {".5", 0.5}, {"5.", 5.0}, {" 0.25 ", 0.25}, {"\n-7.125e2\t", -712.5}, {"3.141592653589793", 3.141592653589793},
                                 {"1e-300", 1e-300}, {"-0.0", -0.0}, {"0.1", 0.1}, {"12345678.9", 12345678.9}})
    judge<double>("float", c.s, true, c.v, eqd);
  for (auto &s : {"", " ", "abc", "1.2.3", "1,5", "1e", "e5", "1 2", "1.5x", "x1.5", "--1", "1e5.5", "1d5", "one", "true", "1.5 eV", "."})
    judge<double>("float", s, false, 0.0, eqd);
  // string: the trimmed text
  struct SL { const char *s, *v; };
  for (auto &c : std::vector<SL>{{"abc", "abc"}, {"  a b  ", "a b"}, {"\n\tx\n", "x"}, {"", ""}, {"  ", ""}, {"a\nb", "a\nb"}, {"<&>", "<&>"}})
    judge<std::string>("string", c.s, true, c.v, eqs);
  // vectors: separators blank, comma, newline, tab
  auto eqvd = [](const std::vector<double> &a, const std::vector<double> &b) { return a == b; };
  auto eqvi = [](const std::vector<Index> &a, const std::vector<Index> &b) { return a == b; };
  auto eqvs = [](const std::vector<std::string> &a, const std::vector<std::string> &b) { return a == b; };
  struct VD { const char *s; std::vector<double> v; };
  for (auto &c : std::vector<VD>{{"1 2 3", {1, 2, 3}}, {"1,2,3", {1, 2, 3}}, {"1, 2,\n3\t4", {1, 2, 3, 4}}, {" 0.5  -1e2 ", {0.5, -100}},
                                 {"", {}}, {"  ", {}}, {"7", {7}}, {"0.0 0.0 0.0", {0, 0, 0}}})
    judge<std::vector<double>>("vector_float", c.s, true, c.v, eqvd);
  for (auto &s : {"1 a 3", "1;2", "1 2 x", "1.2.3 4", "(1,2)", "1e 2"}) judge<std::vector<double>>("vector_float", s, false, {}, eqvd);
  struct VI { const char *s; std::vector<Index> v; };
  for (auto &c : std::vector<VI>{{"1 2 3", {1, 2, 3}}, {"-1,+2", {-1, 2}}, {"10\n20\t30", {10, 20, 30}}, {"", {}}, {"5", {5}}})
    judge<std::vector<Index>>("vector_int", c.s, true, c.v, eqvi);
  for (auto &s : {"1 2.5", "1 b", "1e3 2", "1;2"}) judge<std::vector<Index>>("vector_int", s, false, {}, eqvi);
  struct VS { const char *s; std::vector<std::string> v; };
  for (auto &c : std::vector<VS>{{"a b c", {"a", "b", "c"}}, {"e, h, s, t", {"e", "h", "s", "t"}}, {"x\ny\tz", {"x", "y", "z"}}, {"", {}}, {" one ", {"one"}}})
    judge<std::vector<std::string>>("vector_string", c.s, true, c.v, eqvs);
  // fixed-size and dynamic Eigen vectors
  auto eq3 = [](const Eigen::Vector3d &a, const Eigen::Vector3d &b) { return a == b; };
  struct E3 { const char *s; Eigen::Vector3d v; };
  for (auto &c : std::vector<E3>{{"1 2 3", Eigen::Vector3d(1, 2, 3)}, {"0.0,0.0,0.0", Eigen::Vector3d(0, 0, 0)}, {" -1e1\t2.5\n3 ", Eigen::Vector3d(-10, 2.5, 3)}})
    judge<Eigen::Vector3d>("vector3d", c.s, true, c.v, eq3);
  for (auto &s : {"", "1", "1 2", "1 2 3 4", "1 2 x", "a b c"}) judge<Eigen::Vector3d>("vector3d", s, false, Eigen::Vector3d::Zero(), eq3);
  auto eqx = [](const Eigen::VectorXd &a, const Eigen::VectorXd &b) { return a.size() == b.size() && (a.size() == 0 || a == b); };
  {
    Eigen::VectorXd v4(4);
    v4 << 1, 2, 3, 4;
    judge<Eigen::VectorXd>("vectorXd", "1 2,3\n4", true, v4, eqx);
    Eigen::VectorXd v1(1);
    v1 << -2.5;
    judge<Eigen::VectorXd>("vectorXd", " -2.5 ", true, v1, eqx);
    judge<Eigen::VectorXd>("vectorXd", "1 2 y", false, Eigen::VectorXd(), eqx);
  }
  // the same conversions through attributes (getAttribute<T> is not trimmed: exact literal only)
  {
    Property p("x", "", "");
    p.setAttribute("b", "true");
    p.setAttribute("i", "-12");
    p.setAttribute("d", "2.5e-1");
    R.eval("attribute_conversion", 3);
    try {
      if (p.getAttribute<bool>("b") != true || p.getAttribute<Index>("i") != -12 || p.getAttribute<double>("d") != 0.25)
        R.violation("as_attribute/wrong-value", "getAttribute<T> returns a wrong value", J().s("attrs", "b=true i=-12 d=2.5e-1"));
    } catch (const std::exception &e) {
      R.violation("as_attribute/documented-literal-rejected", "getAttribute<T> throws", J().s("error", e.what()));
    }
  }
  R.summary();
  return 0;
}

int main(int argc, char **argv) {
  vfh::Args A(argc, argv);
  signal(SIGABRT, vfh::abort_handler);
  std::string mode = A.str("mode", "astable");
  if (mode == "merge") return mode_merge(A);
  if (mode == "roundtrip") return mode_roundtrip(A);
  if (mode == "astable") return mode_astable(A);
  std::cerr << "unknown mode " << mode << "\n";
  return 2;
}
