// C05 monitor (in-process part): the real CsgApplication::Exec with a test
// application, all worker threads driven by the controlled scheduler
// (hookrt/sched.cc). See DESIGN.md §5 C05.
#include "hookrt/sched.h"
#include "vfh.h"
#include <fstream>
#include <votca/csg/csgapplication.h>

using namespace votca::csg;
using vfh::J;
namespace vfsched {
extern std::function<void(const Result &)> on_deadlock;
extern std::function<void(const Result &, const std::string &, const std::string &)> on_fatal;
}

struct Rec { long step; uint64_t sum; bool operator==(const Rec &o) const { return step == o.step && sum == o.sum; } bool operator<(const Rec &o) const { return step < o.step || (step == o.step && sum < o.sum); } };

class MonWorker;
class MonApp : public CsgApplication {
 public:
  bool ordered_ = true;
  std::vector<Rec> log_;
  int begin_calls_ = 0, end_calls_ = 0;
  std::string ProgramName() override { return "c05mon"; }
  void HelpText(std::ostream &) override {}
  bool DoTrajectory() override { return true; }
  bool DoThreaded() override { return true; }
  bool SynchronizeThreads() override { return ordered_; }
  void BeginEvaluate(Topology *, Topology *) override { ++begin_calls_; }
  void EndEvaluate() override { ++end_calls_; }
  std::unique_ptr<Worker> ForkWorker() override;
  void MergeWorker(Worker *w) override;
};
class MonWorker : public CsgApplication::Worker {
 public:
  std::vector<Rec> pending_;
  void EvalConfiguration(Topology *top, Topology *) override {
    uint64_t h = 5;
    for (auto &b : top->Beads()) { const Eigen::Vector3d &p = b.getPos(); h = vfh::hdouble(vfh::hdouble(vfh::hdouble(h, p.x()), p.y()), p.z()); }
    const Eigen::Matrix3d &bx = top->getBox();
    h = vfh::hdouble(h, bx(0, 0));
    pending_.push_back({(long)top->getStep(), h});
  }
};
std::unique_ptr<CsgApplication::Worker> MonApp::ForkWorker() { return std::make_unique<MonWorker>(); }
void MonApp::MergeWorker(Worker *w) {
  MonWorker *m = dynamic_cast<MonWorker *>(w);
  for (auto &r : m->pending_) log_.push_back(r);
  m->pending_.clear();
}

struct Scenario {
  int nbeads, nframes_file, nt, first_frame, nframes_opt;  // nframes_opt < 0: option absent
  bool ordered;
  std::vector<long> steps;
  std::string top, trj;
  std::vector<long> expected() const {
    std::vector<long> e;
    int start = std::max(first_frame, 1) - 1;
    for (int i = start; i < nframes_file; ++i) {
      if (nframes_opt >= 0 && (int)e.size() >= nframes_opt) break;
      e.push_back(steps[i]);
    }
    return e;
  }
  bool too_short() const { return std::max(first_frame, 1) > nframes_file; }
  J json() const {
    J j;
    j.i("beads", nbeads).i("frames_in_file", nframes_file).i("nt", nt).i("first_frame", first_frame).i("nframes", nframes_opt).b("ordered", ordered).vec("steps", steps);
    return j;
  }
};

static void write_files(const Scenario &s, vfh::Rng &rng) {
  std::ofstream t(s.top);
  t << "<topology>\n <molecules>\n  <molecule name=\"M\" nmols=\"" << s.nbeads << "\" nbeads=\"1\">\n   <bead name=\"A\" type=\"A\" mass=\"1.0\" q=\"0\" />\n  </molecule>\n </molecules>\n</topology>\n";
  std::ofstream d(s.trj);
  d << std::setprecision(8);
  for (int f = 0; f < s.nframes_file; ++f) {
    double L = 10 + f;
    d << "ITEM: TIMESTEP\n" << s.steps[f] << "\nITEM: NUMBER OF ATOMS\n" << s.nbeads << "\nITEM: BOX BOUNDS pp pp pp\n0 " << L << "\n0 " << L << "\n0 " << L << "\nITEM: ATOMS id type x y z\n";
    for (int i = 0; i < s.nbeads; ++i) d << (i + 1) << " 1 " << rng.uni(0, L) << " " << rng.uni(0, L) << " " << rng.uni(0, L) << "\n";
  }
}

static std::streambuf *g_cout_buf = nullptr, *g_cerr_buf = nullptr;
struct RunOut { int rc; std::vector<Rec> log; vfsched::Result sr; int begin_calls, end_calls; };

static RunOut run_once(const Scenario &s, int nt, uint64_t sseed, int strategy, int depth, int starve,
                       const std::vector<int> *prefix = nullptr, int pbound = -1) {
  MonApp app;
  app.ordered_ = s.ordered;
  std::vector<std::string> a = {"c05mon", "--top", s.top, "--trj", s.trj, "--nt", std::to_string(nt), "--first-frame", std::to_string(s.first_frame)};
  if (s.nframes_opt >= 0) { a.push_back("--nframes"); a.push_back(std::to_string(s.nframes_opt)); }
  std::vector<char *> av;
  for (auto &x : a) av.push_back(const_cast<char *>(x.c_str()));
  vfsched::Config c;
  c.seed = sseed; c.strategy = strategy; c.pct_depth = depth; c.starve_slot = starve;
  c.ordered = s.ordered; c.expect_frames = s.expected(); c.expect_error = s.too_short();
  if (prefix) c.prefix = *prefix;
  c.preemption_bound = pbound;
  // silence the application's chatter
  std::streambuf *oc = std::cout.rdbuf(), *oe = std::cerr.rdbuf();
  g_cout_buf = oc; g_cerr_buf = oe;
  std::ostringstream sink, esink;
  std::cout.rdbuf(sink.rdbuf()); std::cerr.rdbuf(esink.rdbuf());
  vfsched::begin(c);
  int rc = app.Exec((int)av.size(), av.data());
  RunOut o;
  o.sr = vfsched::end();
  std::cout.rdbuf(oc); std::cerr.rdbuf(oe);
  o.rc = rc; o.log = app.log_; o.begin_calls = app.begin_calls_; o.end_calls = app.end_calls_;
  return o;
}

static vfh::Reporter R;
static std::string cur_scn, cur_sched;

int main(int argc, char **argv) {
  vfh::Args A(argc, argv);
  long seed = A.num("seed", 1), shard = A.num("shard", 0);
  long nscen = A.num("scenarios", 6), nsched = A.num("schedules", 8), maxframes = A.num("maxframes", 12);
  std::string work = A.str("work", ".");
  vfh::Rng rng(seed * 31337 + shard * 7177 + 5);
  std::set<uint64_t> interleavings;
  std::set<std::string> shapes;
  long events = 0;
  int max_runnable = 0;

  vfsched::on_deadlock = [&](const vfsched::Result &r) {
    // runs under the scheduler lock in the deadlocked process: report and leave
    if (g_cout_buf) std::cout.rdbuf(g_cout_buf);
    if (g_cerr_buf) std::cerr.rdbuf(g_cerr_buf);
    J w; w.raw("scenario", cur_scn).raw("schedule", cur_sched).s("trace_tail", vfsched::render(r, 300));
    std::vector<int> d(r.decisions.begin(), r.decisions.end());
    w.vec("decisions", d);
    R.violation("sched/deadlock", "no enabled thread while some thread has not ended (real deadlock under the recorded schedule)", w);
    R.counter("events", (long long)r.trace.size());
    R.summary();
    fflush(stdout);
    _exit(0);
  };

  vfsched::on_fatal = [&](const vfsched::Result &r, const std::string &key, const std::string &detail) {
    if (g_cout_buf) std::cout.rdbuf(g_cout_buf);
    if (g_cerr_buf) std::cerr.rdbuf(g_cerr_buf);
    J w; w.raw("scenario", cur_scn).raw("schedule", cur_sched).s("trace_tail", vfsched::render(r, 300));
    R.violation("sched/" + key, detail, w);
    R.counter("events", (long long)r.trace.size());
    R.summary();
    fflush(stdout);
    _exit(0);
  };

  if (A.has("enumerate")) {
    // systematic enumeration (stateless DFS over the scheduler's decisions) of ALL interleavings of small
    // configurations, optionally with a preemption bound: --enumerate "nt,frames,first,nframes,ordered,bound"
    std::istringstream es(A.str("enumerate"));
    std::string tok;
    std::vector<int> p;
    while (std::getline(es, tok, ',')) p.push_back(std::atoi(tok.c_str()));
    Scenario s;
    s.nbeads = 2; s.nt = p[0]; s.nframes_file = p[1]; s.first_frame = p[2]; s.nframes_opt = p[3]; s.ordered = p[4] != 0;
    int bound = p.size() > 5 ? p[5] : -1;
    long maxruns = A.num("maxruns", 200000);
    for (int f = 0; f < s.nframes_file; ++f) s.steps.push_back(10 * (f + 1));
    s.top = work + "/etop_" + std::to_string(shard) + ".xml";
    s.trj = work + "/etrj_" + std::to_string(shard) + ".dump";
    write_files(s, rng);
    cur_scn = s.json().str();
    RunOut ref = run_once(s, 1, 1, vfsched::UNIFORM, 0, 1);
    std::vector<int> prefix;
    long runs = 0;
    bool complete = false;
    std::set<uint64_t> seen;
    while (runs < maxruns) {
      {
        J sj; sj.i("nt", s.nt).s("strategy", "dfs").vec("prefix", prefix).i("preemption_bound", bound);
        cur_sched = sj.str();
      }
      RunOut o = run_once(s, s.nt, 1, vfsched::DFS_REPLAY, 0, 0, &prefix, bound);
      ++runs;
      R.eval(s.ordered ? "enumerated_ordered" : "enumerated_unordered");
      events += (long)o.sr.trace.size();
      if (seen.insert(o.sr.interleaving_hash).second && o.sr.max_enabled >= 2) R.nontrivial(vfh::hmix(o.sr.interleaving_hash, vfh::hstr(7, cur_scn)));
      for (auto &v : o.sr.violations) {
        auto bar = v.find('|');
        J w; w.raw("scenario", cur_scn).raw("schedule", cur_sched).s("detail", v.substr(bar + 1)).s("trace_tail", vfsched::render(o.sr, 250));
        R.violation("sched/" + v.substr(0, bar), v.substr(bar + 1), w);
      }
      if (!s.too_short()) {
        bool same;
        if (s.ordered) same = (o.log == ref.log);
        else { auto a = o.log, b = ref.log; std::sort(a.begin(), a.end()); std::sort(b.begin(), b.end()); same = (a == b); }
        if (o.rc != 0 || !same) R.violation(s.ordered ? "output/ordered-differs-from-nt1" : "output/unordered-frame-set-differs-from-nt1", "merged result differs from the single-thread run", J().raw("scenario", cur_scn).raw("schedule", cur_sched).s("trace_tail", vfsched::render(o.sr, 250)));
      }
      // next prefix: last decision with an untried alternative
      const auto &ci = o.sr.choice_index; const auto &cc = o.sr.choice_count;
      long k = (long)ci.size() - 1;
      while (k >= 0 && ci[k] + 1 >= cc[k]) --k;
      if (k < 0) { complete = true; break; }
      prefix.assign(ci.begin(), ci.begin() + k);
      prefix.push_back(ci[k] + 1);
    }
    R.counter("enumeration_runs", runs);
    R.counter(complete ? "enumerations_complete" : "enumerations_truncated", 1);
    R.counter("events", events);
    R.counter("distinct_interleavings", (long long)seen.size());
    {
      J sj; sj.raw("scenario", cur_scn).i("preemption_bound", bound).i("runs", runs).b("complete", complete).i("distinct_interleavings", (long long)seen.size());
      R.sample(sj);
    }
    R.summary();
    return 0;
  }
  for (long is = 0; is < nscen; ++is) {
    Scenario s;
    s.nbeads = (int)rng.range(2, 6);
    int fam = (int)rng.range(0, 9);
    s.nt = (int)rng.range(1, 8);
    if (fam == 0) s.nframes_file = 1;
    else if (fam == 1) s.nframes_file = s.nt;                                // = threads
    else if (fam == 2) s.nframes_file = std::max(1, s.nt - (int)rng.range(1, 3));  // fewer than threads
    else s.nframes_file = (int)rng.range(2, maxframes);
    int ff = (int)rng.range(0, 9);
    s.first_frame = ff <= 3 ? 0 : ff == 4 ? 1 : ff <= 7 ? (int)rng.range(2, std::max(2, s.nframes_file)) : s.nframes_file + (int)rng.range(0, 2);
    int nf = (int)rng.range(0, 9);
    s.nframes_opt = nf <= 3 ? -1 : nf == 4 ? 0 : nf == 5 ? 1 : nf <= 7 ? (int)rng.range(1, s.nframes_file) : s.nframes_file + (int)rng.range(0, 3);
    s.ordered = rng.coin(0.6);
    long st = rng.range(0, 50);
    for (int f = 0; f < s.nframes_file; ++f) { s.steps.push_back(st); st += rng.range(1, 30); }
    s.top = work + "/top_" + std::to_string(shard) + ".xml";
    s.trj = work + "/trj_" + std::to_string(shard) + ".dump";
    write_files(s, rng);
    cur_scn = s.json().str();
    std::vector<long> want = s.expected();
    shapes.insert(std::to_string(s.nt) + "x" + std::to_string(want.size()) + (s.ordered ? "o" : "u"));

    // reference: single worker thread
    cur_sched = "{\"nt\":1,\"strategy\":0}";
    RunOut ref = run_once(s, 1, 1, vfsched::UNIFORM, 0, 1);
    R.eval("reference_nt1");
    auto report_sched = [&](const RunOut &o, const std::string &schedjson) {
      for (auto &v : o.sr.violations) {
        auto bar = v.find('|');
        J w; w.raw("scenario", cur_scn).raw("schedule", schedjson).s("detail", v.substr(bar + 1)).s("trace_tail", vfsched::render(o.sr, 250));
        std::vector<int> d(o.sr.decisions.begin(), o.sr.decisions.end());
        w.vec("decisions", d);
        R.violation("sched/" + v.substr(0, bar), v.substr(bar + 1), w);
      }
    };
    report_sched(ref, cur_sched);
    if (s.too_short()) {
      if (ref.rc == 0) R.violation("select/too-short-no-error", "first-frame beyond the end of the trajectory did not produce an error", J().raw("scenario", cur_scn));
    } else {
      if (ref.rc != 0) { R.violation("run/unexpected-error", "single-thread run failed", J().raw("scenario", cur_scn)); continue; }
      // nt=1 log must list exactly the selected frames in order (independent selection oracle)
      std::vector<long> got;
      for (auto &r : ref.log) got.push_back(r.step);
      if (got != want) R.violation("select/nt1-frames", "single-thread run did not process exactly the selected frames in order", J().raw("scenario", cur_scn).vec("got", got).vec("want", want));
      if (ref.begin_calls != 1 || ref.end_calls != 1) R.violation("run/begin-end-calls", "BeginEvaluate/EndEvaluate not called exactly once", J().raw("scenario", cur_scn));
    }

    for (long k = 0; k < nsched; ++k) {
      int strat = (int)(k % 4);
      int depth = 1 + (int)rng.range(0, 2);
      int starve = (int)rng.range(0, s.nt);  // slot 0 = main thread, 1.. = workers
      uint64_t ss = rng.next() >> 8;
      {
        J sj; sj.i("nt", s.nt).i("strategy", strat).i("pct_depth", depth).i("starve_slot", starve).i("sched_seed", (long long)ss);
        cur_sched = sj.str();
      }
      vfh::set_case(cur_scn + " " + cur_sched);
      RunOut o = run_once(s, s.nt, ss, strat, depth, starve);
      R.eval(s.ordered ? "schedule_ordered" : "schedule_unordered");
      events += (long)o.sr.trace.size();
      max_runnable = std::max(max_runnable, o.sr.max_enabled);
      if (o.sr.max_enabled >= 2 && interleavings.insert(vfh::hmix(o.sr.interleaving_hash, vfh::hstr(3, cur_scn))).second)
        R.nontrivial(vfh::hmix(o.sr.interleaving_hash, vfh::hstr(3, cur_scn)));
      report_sched(o, cur_sched);
      if (s.too_short()) {
        if (o.rc == 0) R.violation("select/too-short-no-error", "first-frame beyond the end did not produce an error", J().raw("scenario", cur_scn));
        continue;
      }
      if (o.rc != 0) { R.violation("run/unexpected-error", "threaded run failed", J().raw("scenario", cur_scn).raw("schedule", cur_sched)); continue; }
      // end-to-end oracle against the single-thread run
      bool same;
      if (s.ordered) same = (o.log == ref.log);
      else { auto a = o.log, b = ref.log; std::sort(a.begin(), a.end()); std::sort(b.begin(), b.end()); same = (a == b); }
      if (!same) {
        std::vector<long> g, w;
        for (auto &r : o.log) g.push_back(r.step);
        for (auto &r : ref.log) w.push_back(r.step);
        J wj; wj.raw("scenario", cur_scn).raw("schedule", cur_sched).vec("merged_steps", g).vec("nt1_steps", w).s("trace_tail", vfsched::render(o.sr, 250));
        std::vector<int> d(o.sr.decisions.begin(), o.sr.decisions.end());
        wj.vec("decisions", d);
        R.violation(s.ordered ? "output/ordered-differs-from-nt1" : "output/unordered-frame-set-differs-from-nt1", "merged result differs from the single-thread run", wj);
      }
      if (o.begin_calls != 1 || o.end_calls != 1) R.violation("run/begin-end-calls", "BeginEvaluate/EndEvaluate not called exactly once", J().raw("scenario", cur_scn));
      if (R.want_sample() && o.sr.max_enabled >= 3 && k == 1) {
        J sj; sj.raw("scenario", cur_scn).raw("schedule", cur_sched).i("events", (long long)o.sr.trace.size()).i("max_enabled", o.sr.max_enabled).s("trace_head", vfsched::render(o.sr, 100000).substr(0, 600));
        R.sample(sj);
      }
    }
  }
  R.counter("events", events);
  R.counter("distinct_interleavings", (long long)interleavings.size());
  R.counter_max("max_runnable", max_runnable);
  R.counter("shapes", (long long)shapes.size());
  R.summary();
  return 0;
}
