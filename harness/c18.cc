// C18 monitor: wildcard patterns, range expressions and index lists denote
// exactly what they say (DESIGN.md §5 C18).
// Real code: tools::wildcmp, tools::RangeParser (Parse / iteration /
// operator<< / Add), xtp::IndexParser, csg::BeadList::Generate.
// Oracles: dynamic-programming glob matcher, direct enumeration of the
// denoted integers; iteration runs under a step budget (1e6), so that
// non-termination is a verdict; the zero- and negative-stride families run
// one case per forked child under an alarm so a hang inside the library
// cannot take the run down.
#include "vfh.h"
#include <algorithm>
#include <csignal>
#include <poll.h>
#include <sys/wait.h>
#include <votca/csg/beadlist.h>
#include <votca/csg/topology.h>
#include <votca/csg/topologyreader.h>
#include <fstream>
#include <votca/tools/rangeparser.h>
#include <votca/tools/tokenizer.h>
#include <votca/xtp/IndexParser.h>

using vfh::J;
typedef votca::Index Index;

// ------------------------------------------------------------------ fork helper
struct ForkRes { bool ok = false, timeout = false; int status = 0; std::string result, err; };
template <class F>
static ForkRes run_forked(F fn, int timeout_s = 30) {
  ForkRes R;
  int pe[2], pr[2];
  if (pipe(pe) || pipe(pr)) { perror("pipe"); exit(3); }
  fflush(stdout);
  std::cout.flush();
  pid_t pid = fork();
  if (pid < 0) { perror("fork"); exit(3); }
  if (pid == 0) {
    ::close(pe[0]); ::close(pr[0]);
    dup2(pe[1], 2);
    alarm(timeout_s);
    std::string s = fn();
    size_t off = 0;
    while (off < s.size()) { ssize_t n = write(pr[1], s.data() + off, s.size() - off); if (n <= 0) break; off += (size_t)n; }
    _exit(0);
  }
  ::close(pe[1]); ::close(pr[1]);
  struct pollfd fds[2] = {{pe[0], POLLIN, 0}, {pr[0], POLLIN, 0}};
  std::string *dst[2] = {&R.err, &R.result};
  int open_n = 2;
  char buf[4096];
  while (open_n > 0) {
    if (poll(fds, 2, -1) < 0) break;
    for (int k = 0; k < 2; ++k) {
      if (fds[k].fd < 0 || !(fds[k].revents & (POLLIN | POLLHUP | POLLERR))) continue;
      ssize_t n = read(fds[k].fd, buf, sizeof buf);
      if (n > 0) { if (dst[k]->size() < (1u << 20)) dst[k]->append(buf, n); }
      else { ::close(fds[k].fd); fds[k].fd = -1; --open_n; }
    }
  }
  waitpid(pid, &R.status, 0);
  R.timeout = WIFSIGNALED(R.status) && WTERMSIG(R.status) == SIGALRM;
  R.ok = WIFEXITED(R.status) && WEXITSTATUS(R.status) == 0;
  return R;
}

// ------------------------------------------------------------------ (A) wildcards
// reference: classic DP over (pattern prefix, string prefix)
static bool glob_dp(const std::string &p, const std::string &s) {
  size_t m = p.size(), n = s.size();
  std::vector<char> prev(n + 1, 0), cur(n + 1, 0);
  prev[0] = 1;
  for (size_t i = 1; i <= m; ++i) {
    char c = p[i - 1];
    cur[0] = (c == '*') && prev[0];
    for (size_t j = 1; j <= n; ++j) {
      if (c == '*') cur[j] = prev[j] || cur[j - 1];
      else if (c == '?') cur[j] = prev[j - 1];
      else cur[j] = prev[j - 1] && (c == s[j - 1]);
    }
    std::swap(prev, cur);
  }
  return prev[n] != 0;
}
static void all_words(const std::string &alpha, int maxlen, std::vector<std::string> &out) {
  out.push_back("");
  size_t start = 0;
  for (int l = 1; l <= maxlen; ++l) {
    size_t end = out.size();
    for (size_t i = start; i < end; ++i)
      for (char c : alpha) out.push_back(out[i] + c);
    start = end;
  }
}
static void run_wild(vfh::Rng &rng, vfh::Reporter &R, long shard, long nshards, int plen, int slen, long nrandom) {
  std::vector<std::string> pats, strs;
  all_words("ab*?", plen, pats);
  all_words("ab", slen, strs);
  long judged = 0;
  for (size_t ip = 0; ip < pats.size(); ++ip) {
    if ((long)(ip % nshards) != shard) continue;
    const std::string &p = pats[ip];
    bool wild = p.find_first_of("*?") != std::string::npos;
    for (const std::string &s : strs) {
      bool want = glob_dp(p, s);
      bool got = votca::tools::wildcmp(p.c_str(), s.c_str()) != 0;
      ++judged;
      if (got != want) R.violation("wildcmp/differs-from-glob", "wildcmp differs from the reference glob matcher", J().s("pattern", p).s("string", s).b("got", got).b("expected", want));
    }
    if (wild) R.nontrivial(vfh::hstr(11, p));
    if (R.want_sample() && ip % 977 == 5) R.sample(J().s("pattern", p).i("strings_judged", (long)strs.size()).b("matches_ab", glob_dp(p, "ab")));
  }
  R.eval("wildcmp_exhaustive", judged);
  R.counter("wildcmp_exhaustive_patterns_total", shard == 0 ? (long)pats.size() : 0);
  R.counter("wildcmp_exhaustive_strings", shard == 0 ? (long)strs.size() : 0);
  R.counter("wildcmp_exhaustive_pattern_maxlen", shard == 0 ? plen : 0);
  R.counter("wildcmp_exhaustive_string_maxlen", shard == 0 ? slen : 0);
  // random longer ones, larger alphabet incl. characters that are special elsewhere but literal here
  const std::string pa = "abc*?[].\\-_1";
  const std::string sa = "abc[].\\-_1";
  for (long i = 0; i < nrandom; ++i) {
    std::string p, s;
    int lp = (int)rng.range(0, 24), ls = (int)rng.range(0, 32);
    double pstar = rng.uni(0.05, 0.5);
    for (int k = 0; k < lp; ++k) p += rng.coin(pstar) ? (rng.coin() ? '*' : '?') : pa[rng.next() % 3];
    if (rng.coin(0.2)) { p.clear(); for (int k = 0; k < lp; ++k) p += pa[rng.next() % pa.size()]; }
    if (rng.coin(0.6)) {  // derive the string from the pattern so that matches are frequent
      for (char c : p) {
        if (c == '*') { int k = (int)rng.range(0, 3); while (k--) s += sa[rng.next() % 3]; }
        else if (c == '?') s += sa[rng.next() % 3];
        else s += c;
      }
      if (rng.coin(0.3) && !s.empty()) s[rng.next() % s.size()] = sa[rng.next() % 3];
    } else {
      for (int k = 0; k < ls; ++k) s += sa[rng.next() % (rng.coin(0.8) ? 3 : sa.size())];
    }
    bool want = glob_dp(p, s);
    bool got = (i & 1) ? votca::tools::wildcmp(p, s) != 0 : votca::tools::wildcmp(p.c_str(), s.c_str()) != 0;
    R.eval("wildcmp_random");
    R.counter(want ? "wildcmp_random_matches" : "wildcmp_random_mismatches");
    if (p.find_first_of("*?") != std::string::npos && !s.empty()) R.nontrivial(vfh::hstr(vfh::hstr(12, p), s));
    if (got != want) R.violation("wildcmp/differs-from-glob", "wildcmp differs from the reference glob matcher", J().s("pattern", p).s("string", s).b("got", got).b("expected", want));
  }
}

// ------------------------------------------------------------------ (B) ranges
static const long BUDGET = 1000000;
struct Blk { long a, s, b; int fields; };  // fields 1: "a", 2: "a:b", 3: "a:s:b"
static std::string blk_str(const Blk &k) {
  std::ostringstream o;
  if (k.fields == 1) o << k.a;
  else if (k.fields == 2) o << k.a << ":" << k.b;
  else o << k.a << ":" << k.s << ":" << k.b;
  return o.str();
}
enum Status { VALID, MUST_REJECT, EMPTY_OR_REJECT };
static Status blk_status(const Blk &k, std::vector<long> &seq) {
  long a = k.a, s = k.fields == 3 ? k.s : 1, b = k.fields == 1 ? k.a : k.b;
  if (s == 0) return MUST_REJECT;
  if ((s > 0 && a > b) || (s < 0 && a < b)) return EMPTY_OR_REJECT;
  if (s > 0) for (long v = a; v <= b; v += s) seq.push_back(v);
  else for (long v = a; v >= b; v += s) seq.push_back(v);
  return VALID;
}
struct Outcome { bool rejected = false, nonterm = false; std::vector<long> seq; std::string printed, what; bool rt_rejected = false, rt_nonterm = false; std::vector<long> rt_seq; };
static bool iterate(votca::tools::RangeParser &rp, std::vector<long> &seq) {
  long steps = 0;
  for (auto it = rp.begin(); it != rp.end(); ++it) {
    if (++steps > BUDGET) return false;
    if (seq.size() < 4096) seq.push_back((long)*it);
  }
  return true;
}
static Outcome observe(const std::string &expr) {
  Outcome o;
  votca::tools::RangeParser rp;
  try { rp.Parse(expr); } catch (std::exception &e) { o.rejected = true; o.what = e.what(); return o; }
  if (!iterate(rp, o.seq)) { o.nonterm = true; return o; }
  std::ostringstream os;
  os << rp;
  o.printed = os.str();
  votca::tools::RangeParser rp2;
  try { rp2.Parse(o.printed); } catch (std::exception &e) { o.rt_rejected = true; return o; }
  if (!iterate(rp2, o.rt_seq)) o.rt_nonterm = true;
  return o;
}
static std::string encode(const Outcome &o) {
  std::ostringstream s;
  s << (o.rejected ? "R" : o.nonterm ? "N" : "S") << "|" << o.printed << "|" << (o.rt_rejected ? "R" : o.rt_nonterm ? "N" : "S") << "|";
  for (long v : o.seq) s << v << " ";
  s << "|";
  for (long v : o.rt_seq) s << v << " ";
  s << "|" << o.what;
  return s.str();
}
static Outcome decode(const std::string &r) {
  Outcome o;
  std::vector<std::string> f;
  size_t p = 0;
  for (int k = 0; k < 5; ++k) { size_t q = r.find('|', p); if (q == std::string::npos) { f.push_back(r.substr(p)); p = r.size(); } else { f.push_back(r.substr(p, q - p)); p = q + 1; } }
  f.push_back(p <= r.size() ? r.substr(p) : "");
  o.rejected = f[0] == "R"; o.nonterm = f[0] == "N";
  o.printed = f[1];
  o.rt_rejected = f[2] == "R"; o.rt_nonterm = f[2] == "N";
  { std::istringstream is(f[3]); long v; while (is >> v) o.seq.push_back(v); }
  { std::istringstream is(f[4]); long v; while (is >> v) o.rt_seq.push_back(v); }
  o.what = f[5];
  return o;
}
static std::string with_spaces(const std::string &e, vfh::Rng &r) {
  std::string o;
  for (char c : e) { if (r.coin(0.15)) o += ' '; o += c; }
  if (r.coin(0.2)) o += ' ';
  return o;
}

static void judge_range(vfh::Reporter &R, const std::vector<Blk> &blocks, const std::string &expr, bool forked) {
  bool has_zero = false, has_neg = false, must_reject = false, either = false;
  std::vector<long> want;
  for (auto &k : blocks) {
    long s = k.fields == 3 ? k.s : 1;
    has_zero |= (s == 0);
    has_neg |= (s < 0);
    std::vector<long> sq;
    Status st = blk_status(k, sq);
    must_reject |= (st == MUST_REJECT);
    either |= (st == EMPTY_OR_REJECT);
    want.insert(want.end(), sq.begin(), sq.end());
  }
  const char *fam = has_zero ? "range_zero_stride" : has_neg ? "range_negative_stride" : blocks.size() > 1 ? "range_multi_block" : "range_single_block";
  R.eval(fam);
  Outcome o;
  if (forked) {
    ForkRes f = run_forked([&]() { return encode(observe(expr)); });
    if (!f.ok) {
      std::string key = has_zero ? "range/zero-stride-nonterminating" : has_neg ? "range/negative-stride" : "range/abort";
      R.violation(key, f.timeout ? "no termination inside the library within the watchdog" : "process aborted: " + f.err.substr(0, 400), J().s("expression", expr));
      return;
    }
    o = decode(f.result);
  } else {
    o = observe(expr);
  }
  J wit;
  std::vector<long> head(o.seq.begin(), o.seq.begin() + std::min<size_t>(o.seq.size(), 24));
  std::vector<long> whead(want.begin(), want.begin() + std::min<size_t>(want.size(), 64));
  wit.s("expression", expr).vec("expected_sequence", whead).i("expected_length", (long)want.size()).b("rejected", o.rejected).b("iteration_exceeded_1e6_steps", o.nonterm).vec("got_sequence_first24", head).i("got_length_capped_4096", (long)o.seq.size());
  std::string kz = "range/zero-stride-nonterminating", kn = "range/negative-stride";
  if (must_reject) {
    // zero stride: the statement demands rejection
    if (o.rejected) { R.counter("zero_stride_rejected"); }
    else if (o.nonterm) R.violation(kz, "a zero stride is accepted and the iteration does not terminate (step budget 1e6 exceeded)", wit);
    else R.violation(kz, "a zero stride is accepted (this iteration happens to terminate)", wit);
    R.nontrivial(vfh::hstr(21, expr));
    return;
  }
  if (o.rejected) {
    if (either) { R.counter("direction_mismatch_rejected"); return; }
    R.violation(has_neg ? kn : "range/valid-rejected", "a valid range expression is rejected: " + o.what, wit);
    return;
  }
  if (either) R.counter("direction_mismatch_accepted_as_empty");
  R.nontrivial(vfh::hstr(22, expr));
  if (o.nonterm) { R.violation(has_neg ? kn : "range/nonterminating", "iteration does not terminate (step budget 1e6 exceeded)", wit); return; }
  if (o.seq != want) { R.violation(has_neg ? kn : "range/wrong-sequence", "iteration does not enumerate the denoted integers in order", wit); return; }
  // print -> parse round trip
  if (o.rt_rejected || o.rt_nonterm || o.rt_seq != o.seq)
    R.violation(has_neg ? kn : "range/print-parse-roundtrip", "printing the parsed range and parsing it again gives a different sequence", wit.s("printed", o.printed).vec("reparsed_sequence", o.rt_seq).b("reparsed_rejected", o.rt_rejected));
  if (R.want_sample() && want.size() > 2 && blocks.size() > 1) R.sample(wit.s("printed", o.printed));
}

static void run_range(vfh::Rng &rng, vfh::Reporter &R, long shard, long nshards, long nmulti) {
  // all begin:stride:end in [-6,6]^3, 3-field form; all a:b; all a
  long idx = 0;
  for (long a = -6; a <= 6; ++a)
    for (long s = -6; s <= 6; ++s)
      for (long b = -6; b <= 6; ++b) {
        if ((idx++ % nshards) != shard) continue;
        Blk k{a, s, b, 3};
        judge_range(R, {k}, blk_str(k), s <= 0);
      }
  for (long a = -6; a <= 6; ++a)
    for (long b = -6; b <= 6; ++b) {
      if ((idx++ % nshards) != shard) continue;
      Blk k{a, 1, b, 2};
      judge_range(R, {k}, blk_str(k), false);
    }
  for (long a = -6; a <= 6; ++a) {
    if ((idx++ % nshards) != shard) continue;
    Blk k{a, 1, a, 1};
    judge_range(R, {k}, blk_str(k), false);
  }
  R.counter("range_window_exhaustive_-6..6", 1);
  // 2..3 blocks, larger numbers, spaces
  for (long i = 0; i < nmulti; ++i) {
    int nb = (int)rng.range(1, 3);
    std::vector<Blk> bl;
    bool suspect = false;
    int flavour = (int)rng.range(0, 9);  // 0: may contain zero stride, 1-2: may contain negative strides, else positive only
    for (int q = 0; q < nb; ++q) {
      Blk k;
      k.fields = (int)rng.range(1, 3);
      long w = rng.coin(0.7) ? 6 : 200;
      k.a = rng.range(-w, w);
      k.b = rng.coin(0.15) ? k.a : rng.range(-w, w);
      k.s = rng.range(1, rng.coin(0.7) ? 3 : 50);
      if (k.fields == 3 && flavour == 0 && rng.coin(0.5)) k.s = 0;
      if (k.fields == 3 && (flavour == 1 || flavour == 2) && rng.coin(0.6)) k.s = -k.s;
      long s = k.fields == 3 ? k.s : 1;
      if (s > 0 && k.a > k.b && rng.coin(0.8)) std::swap(k.a, k.b);
      if (s < 0 && k.a < k.b && rng.coin(0.8)) std::swap(k.a, k.b);
      if (k.fields == 1) k.b = k.a;
      suspect |= (s <= 0);
      bl.push_back(k);
    }
    std::string e;
    for (size_t q = 0; q < bl.size(); ++q) e += (q ? "," : "") + blk_str(bl[q]);
    if (rng.coin(0.3)) e = with_spaces(e, rng);
    judge_range(R, bl, e, suspect);
  }
  // Add() API with valid positive strides + iteration + print/parse
  for (long i = 0; i < nmulti / 4 + 1; ++i) {
    votca::tools::RangeParser rp;
    std::vector<long> want;
    int nb = (int)rng.range(1, 3);
    std::ostringstream desc;
    for (int q = 0; q < nb; ++q) {
      long a = rng.range(-50, 50), b = a + rng.range(0, 40), s = rng.range(1, 7);
      rp.Add(a, b, s);
      desc << "Add(" << a << "," << b << "," << s << ") ";
      for (long v = a; v <= b; v += s) want.push_back(v);
    }
    R.eval("range_add_api");
    std::vector<long> got;
    bool term = iterate(rp, got);
    std::ostringstream os;
    os << rp;
    J wit;
    wit.s("calls", desc.str()).vec("expected_sequence", want).vec("got_sequence", got).s("printed", os.str());
    if (!term) { R.violation("range/nonterminating", "iteration over Add()ed blocks does not terminate", wit); continue; }
    if (got != want) { R.violation("range/wrong-sequence", "iteration over Add()ed blocks differs from the denoted integers", wit); continue; }
    Outcome o = observe(os.str());
    if (o.rejected || o.nonterm || o.seq != want) R.violation("range/print-parse-roundtrip", "printed Add()ed range does not parse back to the same sequence", wit.vec("reparsed_sequence", o.seq).b("reparsed_rejected", o.rejected));
  }
  // malformed inputs
  if (shard == 0) {
    struct M { const char *e; const char *kind; };
    static const M mal[] = {
        {"a", "nonnumeric"}, {"1:a", "nonnumeric"}, {"a:5", "nonnumeric"}, {"1:x:5", "nonnumeric"}, {"1:2:z", "nonnumeric"}, {"1,b,3", "nonnumeric"},
        {"x1", "nonnumeric"}, {"1:-:3", "nonnumeric"}, {"+", "nonnumeric"}, {"1;5", "garbage"}, {"1:2:3:4", "fields"}, {"1:1:1:1:1", "fields"}, {"2,1:2:3:4", "fields"},
        {"3abc", "garbage"}, {"1:2x:9", "garbage"}, {"1:5q", "garbage"}, {"1.5", "garbage"}, {"1:2.5:8", "garbage"}, {"1e2", "garbage"}, {"0x10", "garbage"}, {"1-5", "garbage"}, {"2,7k", "garbage"},
    };
    for (auto &m : mal) {
      Outcome o = observe(m.e);
      std::string kind = m.kind;
      R.eval("range_malformed_" + kind);
      R.nontrivial(vfh::hstr(23, m.e));
      if (!o.rejected) {
        std::string key = kind == "garbage" ? "range/trailing-garbage-accepted" : kind == "fields" ? "range/too-many-fields-accepted" : "range/nonnumeric-accepted";
        R.violation(key, "a malformed range expression is accepted", J().s("expression", m.e).vec("got_sequence", o.seq).b("nonterminating", o.nonterm));
      } else R.counter("malformed_rejected");
    }
    // forms whose status the statement leaves open: observation only
    static const char *open_forms[] = {"1::5", "1,,3", ",1", "1,", "1:", ":5", "", ",", "::", "1: :5", "99999999999", "1:99999999999"};
    for (const char *e : open_forms) {
      std::string ex = e;
      ForkRes f = run_forked([&]() { return encode(observe(ex)); });
      std::string tag = "obs_open_form[" + ex + "]_";
      if (!f.ok) { R.counter(tag + "abort_or_timeout"); continue; }
      Outcome o = decode(f.result);
      std::ostringstream sq;
      for (long v : o.seq) sq << v << ".";
      R.counter(tag + (o.rejected ? "rejected" : o.nonterm ? "nonterminating" : "accepted_as_" + sq.str()));
    }
  }
}


// ------------------------------------------------------------------ (B2) range objects used more than once, adjacent blocks
static std::vector<long> blk_seq(long a, long s, long b) {
  std::vector<long> v;
  if (s > 0) for (long x = a; x <= b; x += s) v.push_back(x);
  else for (long x = a; x >= b; x += s) v.push_back(x);
  return v;
}
static bool iter_all(votca::tools::RangeParser &rp, std::vector<long> &seq) { seq.clear(); return iterate(rp, seq); }
static std::string printed(const votca::tools::RangeParser &rp) { std::ostringstream os; os << rp; return os.str(); }

// blocks that follow each other exactly one stride after the written end of the previous block
static void run_range_adjacent(vfh::Rng &rng, vfh::Reporter &R, long shard, long nshards, long nrandom) {
  struct B3 { long a, s, b; };
  long idx = 0;
  auto one = [&](const std::vector<B3> &bl) {
    std::vector<long> want;
    std::string expr, calls;
    for (size_t q = 0; q < bl.size(); ++q) {
      auto v = blk_seq(bl[q].a, bl[q].s, bl[q].b);
      want.insert(want.end(), v.begin(), v.end());
      expr += (q ? "," : "") + std::to_string(bl[q].a) + ":" + std::to_string(bl[q].s) + ":" + std::to_string(bl[q].b);
      calls += "Add(" + std::to_string(bl[q].a) + "," + std::to_string(bl[q].b) + "," + std::to_string(bl[q].s) + ") ";
    }
    bool offl = false;
    for (size_t q = 0; q + 1 < bl.size(); ++q) offl |= ((bl[q].b - bl[q].a) % bl[q].s) != 0;
    R.eval(bl[0].s > 0 ? "range_adjacent_blocks_positive_stride" : "range_adjacent_blocks_negative_stride", 4);
    if (offl) R.nontrivial(vfh::hstr(24, expr));
    std::vector<long> got;
    auto bad = [&](const char *route, const std::string &pr) {
      std::vector<long> head(got.begin(), got.begin() + std::min<size_t>(got.size(), 40));
      R.violation("range/multiblock-wrong-sequence", std::string("blocks that follow each other one stride after the previous end (") + route + ") are not enumerated as the concatenation of the blocks", J().s("expression", expr).s("route", route).vec("expected_sequence", want).vec("got_sequence_first40", head).s("printed", pr));
    };
    try {
      // (i) Parse
      votca::tools::RangeParser p1;
      p1.Parse(expr);
      if (!iter_all(p1, got) || got != want) { bad("Parse", printed(p1)); return; }
      // (ii) Add
      votca::tools::RangeParser p2;
      for (auto &k : bl) p2.Add(k.a, k.b, k.s);
      if (!iter_all(p2, got) || got != want) { bad("Add", printed(p2)); return; }
      // (iii) first block parsed, the others added
      votca::tools::RangeParser p3;
      p3.Parse(std::to_string(bl[0].a) + ":" + std::to_string(bl[0].s) + ":" + std::to_string(bl[0].b));
      for (size_t q = 1; q < bl.size(); ++q) p3.Add(bl[q].a, bl[q].b, bl[q].s);
      if (!iter_all(p3, got) || got != want) { bad("Parse then Add", printed(p3)); return; }
      // (iv) print -> Parse (of each of the three)
      for (votca::tools::RangeParser *rp : {&p1, &p2, &p3}) {
        votca::tools::RangeParser p4;
        std::string pr = printed(*rp);
        p4.Parse(pr);
        if (!iter_all(p4, got) || got != want) { bad("print -> Parse", pr); return; }
      }
      if (R.want_sample() && offl && bl.size() == 2 && bl[0].s == 2) R.sample(J().s("expression", expr).vec("sequence", want).s("printed", printed(p1)));
    } catch (std::exception &e) {
      R.violation("range/multiblock-wrong-sequence", std::string("valid adjacent blocks rejected: ") + e.what(), J().s("expression", expr).s("calls", calls));
    }
  };
  for (long s : {-5L, -4L, -3L, -2L, 2L, 3L, 4L, 5L, 6L})
    for (long off = 0; off < std::labs(s); ++off)
      for (long a : {-7L, 0L, 1L, 12L})
        for (long k1 : {0L, 1L, 3L})
          for (long k2 : {0L, 2L}) {
            if ((idx++ % nshards) != shard) continue;
            long sg = s > 0 ? 1 : -1;
            B3 b1{a, s, a + s * k1 + sg * off};
            B3 b2{b1.b + s, s, b1.b + s + s * k2 + sg * (off ? 1 : 0)};
            one({b1, b2});
            B3 b3{b2.b + s, s, b2.b + s + s};
            one({b1, b2, b3});
          }
  for (long i = 0; i < nrandom; ++i) {
    long s = rng.range(2, 9) * (rng.coin(0.4) ? -1 : 1), sg = s > 0 ? 1 : -1;
    std::vector<B3> bl;
    long a = rng.range(-60, 60);
    int nb = (int)rng.range(2, 4);
    for (int q = 0; q < nb; ++q) {
      long b = a + s * rng.range(0, 5) + sg * rng.range(0, std::labs(s) - 1);
      bl.push_back({a, s, b});
      a = rng.coin(0.8) ? b + s : b + s + sg * rng.range(1, 3);  // mostly exactly one stride later
    }
    one(bl);
  }
}

static void run_range_reuse(vfh::Rng &rng, vfh::Reporter &R, long n) {
  auto gen_expr = [&](std::vector<long> &seq) {
    std::string e;
    int nb = (int)rng.range(1, 3);
    for (int q = 0; q < nb; ++q) {
      long s = rng.range(1, 4) * (rng.coin(0.25) ? -1 : 1);
      long a = rng.range(-30, 30), b = a + s * rng.range(0, 5) + (s > 0 ? 1 : -1) * rng.range(0, std::labs(s) - 1);
      int fields = (s == 1 && rng.coin()) ? (a == b ? 1 : 2) : 3;
      e += (q ? "," : "");
      if (fields == 1) e += std::to_string(a);
      else if (fields == 2) e += std::to_string(a) + ":" + std::to_string(b);
      else e += std::to_string(a) + ":" + std::to_string(s) + ":" + std::to_string(b);
      auto v = blk_seq(a, s, b);
      seq.insert(seq.end(), v.begin(), v.end());
    }
    return e;
  };
  for (long i = 0; i < n; ++i) {
    std::vector<long> s1, s2, got, got2;
    std::string e1 = gen_expr(s1), e2 = gen_expr(s2);
    std::ostringstream hist;
    try {
      votca::tools::RangeParser rp;
      rp.Parse(e1);
      hist << "Parse(\"" << e1 << "\"); ";
      std::vector<long> cur = s1;
      // iterate twice
      R.eval("range_reuse_iterate_twice");
      bool t1 = iter_all(rp, got), t2 = iter_all(rp, got2);
      if (!t1 || !t2 || got != got2 || got != cur) { R.violation("range-reuse/second-iteration-differs", "iterating twice over one RangeParser gives different / wrong sequences", J().s("history", hist.str()).vec("expected", cur).vec("first", got).vec("second", got2)); continue; }
      // second Parse on the same object: append (what the code does) or replace are both readings of the statement
      R.eval("range_reuse_second_parse");
      rp.Parse(e2);
      hist << "Parse(\"" << e2 << "\"); ";
      std::vector<long> app = s1;
      app.insert(app.end(), s2.begin(), s2.end());
      bool term = iter_all(rp, got);
      if (term && got == app) { R.counter("second_parse_appends"); cur = app; }
      else if (term && got == s2) { R.counter("second_parse_replaces"); cur = s2; }
      else { R.violation("range-reuse/second-parse", "after a second Parse on the same object the sequence is neither the concatenation of both expressions nor the second alone", J().s("history", hist.str()).vec("concatenation", app).vec("second_alone", s2).vec("got", got).b("terminated", term)); continue; }
      // Add() calls on the object that was parsed into
      int na = (int)rng.range(1, 3);
      for (int q = 0; q < na; ++q) {
        long s = rng.range(1, 4) * (rng.coin(0.25) ? -1 : 1);
        long a = rng.coin(0.4) && !cur.empty() ? cur.back() + s : rng.range(-30, 30);
        long b = a + s * rng.range(0, 4) + (s > 0 ? 1 : -1) * rng.range(0, std::labs(s) - 1);
        rp.Add(a, b, s);
        hist << "Add(" << a << "," << b << "," << s << "); ";
        auto v = blk_seq(a, s, b);
        cur.insert(cur.end(), v.begin(), v.end());
        R.eval("range_reuse_add_after_parse");
        if (!iter_all(rp, got) || got != cur) { R.violation("range-reuse/add-after-parse", "Add() on an object that already holds blocks: the sequence is not the earlier sequence followed by the new block", J().s("history", hist.str()).vec("expected", cur).vec("got", got)); cur.clear(); break; }
      }
      if (cur.empty()) continue;
      // print -> Parse of the re-used object
      R.eval("range_reuse_print_parse");
      std::string pr = printed(rp);
      votca::tools::RangeParser fresh;
      fresh.Parse(pr);
      if (!iter_all(fresh, got) || got != cur) R.violation("range-reuse/print-parse-roundtrip", "the printed form of a re-used RangeParser does not parse back to its sequence", J().s("history", hist.str()).s("printed", pr).vec("expected", cur).vec("got", got));
      R.nontrivial(vfh::hstr(25, hist.str()));
      if (R.want_sample() && i % 50 == 7) R.sample(J().s("history", hist.str()).s("printed", pr).vec("sequence", cur));
      // a rejected Parse on an object that holds blocks: what is left is not specified -> observation
      if (i % 10 == 0) {
        bool threw = false;
        try { rp.Parse("3:5,x"); } catch (std::exception &) { threw = true; }
        if (threw && iter_all(rp, got)) R.counter(got == cur ? "obs_failed_parse_leaves_object_unchanged" : "obs_failed_parse_keeps_blocks_parsed_before_the_error");
      }
    } catch (std::exception &e) {
      R.violation("range-reuse/exception", std::string("valid sequence of calls threw: ") + e.what(), J().s("history", hist.str()));
    }
  }
}

// one IndexParser object called repeatedly: every call gives what a fresh object gives
static void run_index_reuse(vfh::Rng &rng, vfh::Reporter &R, long n) {
  votca::xtp::IndexParser ip;
  for (long i = 0; i < n; ++i) {
    std::string s1, s2;
    std::vector<Index> v1;
    for (int k = (int)rng.range(1, 6); k > 0; --k) { Index a = rng.range(0, 99); s1 += std::to_string(a) + (rng.coin() ? ":" + std::to_string(a + rng.range(0, 6)) : "") + " "; }
    for (int k = (int)rng.range(1, 6); k > 0; --k) { Index a = rng.range(100, 199); s2 += std::to_string(a) + (rng.coin() ? ":" + std::to_string(a + rng.range(0, 6)) : "") + ","; }
    for (int k = (int)rng.range(0, 12); k > 0; --k) v1.push_back(rng.range(0, 40));
    R.eval("index_reuse");
    try {
      votca::xtp::IndexParser fresh1, fresh2, fresh3;
      std::vector<Index> a1 = ip.CreateIndexVector(s1);
      std::string b1 = ip.CreateIndexString(v1);
      std::vector<Index> a2 = ip.CreateIndexVector(s2);
      std::vector<Index> a1again = ip.CreateIndexVector(s1);
      std::string b1again = ip.CreateIndexString(v1);
      if (a1 != a1again || b1 != b1again || a1 != fresh1.CreateIndexVector(s1) || a2 != fresh2.CreateIndexVector(s2) || b1 != fresh3.CreateIndexString(v1))
        R.violation("index-reuse/repeated-call-differs", "repeated calls on one IndexParser object give different results (or differ from a fresh object)", J().s("string1", s1).s("string2", s2).vec("vector", v1).vec("first", a1).vec("again", a1again).s("str_first", b1).s("str_again", b1again));
      else if (a1.size() >= 3) R.nontrivial(vfh::hstr(vfh::hstr(33, s1), s2));
    } catch (std::exception &e) {
      R.violation("index-reuse/exception", std::string("valid calls threw: ") + e.what(), J().s("string1", s1).s("string2", s2));
    }
  }
}

// ------------------------------------------------------------------ (C) index lists
static std::vector<Index> sorted_unique(std::vector<Index> v) {
  std::sort(v.begin(), v.end());
  v.erase(std::unique(v.begin(), v.end()), v.end());
  return v;
}
// independent parser of the printed form: tokens "a" or "a:b" separated by blanks
static bool parse_index_string(const std::string &s, std::vector<Index> &out, bool &sorted_dupfree) {
  std::istringstream is(s);
  std::string tok;
  sorted_dupfree = true;
  bool first = true;
  Index last = 0;
  while (is >> tok) {
    size_t c = tok.find(':');
    char *end = nullptr;
    Index a, b;
    if (c == std::string::npos) {
      a = b = strtoll(tok.c_str(), &end, 10);
      if (*end) return false;
    } else {
      std::string l = tok.substr(0, c), r = tok.substr(c + 1);
      a = strtoll(l.c_str(), &end, 10);
      if (*end || l.empty()) return false;
      b = strtoll(r.c_str(), &end, 10);
      if (*end || r.empty()) return false;
      if (b <= a) sorted_dupfree = false;
    }
    if (!first && a <= last) sorted_dupfree = false;
    for (Index v = a; v <= b; ++v) out.push_back(v);
    last = b;
    first = false;
  }
  return true;
}
static void run_index(vfh::Rng &rng, vfh::Reporter &R, long n) {
  votca::xtp::IndexParser ip;
  for (long i = 0; i < n; ++i) {
    // ---- vector -> string -> vector
    {
      std::vector<Index> v;
      int mode = (int)rng.range(0, 4);
      long cnt = rng.range(0, 40);
      Index base = mode == 3 ? (Index)rng.range(0, 4000000000000L) : mode == 4 ? -(Index)rng.range(0, 60) : 0;
      Index cur = base;
      for (long k = 0; k < cnt; ++k) {
        if (mode == 0) v.push_back(rng.range(0, 30));          // dense with duplicates, unsorted
        else if (mode == 1) v.push_back(rng.range(0, 100000));  // sparse
        else { cur += rng.coin(0.6) ? 1 : rng.range(2, 9); v.push_back(cur); }  // runs
      }
      if (rng.coin(0.5)) for (size_t q = v.size(); q > 1; --q) std::swap(v[q - 1], v[rng.next() % q]);
      if (rng.coin(0.3) && !v.empty()) v.push_back(v[rng.next() % v.size()]);
      std::vector<Index> want = sorted_unique(v);
      const char *fam = mode == 4 ? "index_vector_roundtrip_negative" : "index_vector_roundtrip";
      R.eval(fam);
      J wit;
      wit.vec("vector", v);
      try {
        std::string s = ip.CreateIndexString(v);
        std::vector<Index> mine;
        bool sd = true;
        bool okp = parse_index_string(s, mine, sd);
        std::vector<Index> back = ip.CreateIndexVector(s);
        wit.s("string", s).vec("reparsed", back);
        if (!okp || mine != want) R.violation("index/string-loses-indices", "CreateIndexString does not denote the sorted duplicate-free set", wit);
        else if (!sd) R.violation("index/string-not-sorted-duplicate-free", "CreateIndexString output is not sorted / duplicate-free", wit);
        else if (back != want) R.violation("index/vector-string-vector-roundtrip", "vector -> string -> vector is not lossless", wit);
        else if (ip.CreateIndexString(back) != s) R.violation("index/string-not-canonical", "string -> vector -> string changes the string", wit);
        if (want.size() >= 3) { uint64_t h = 31; for (Index x : v) h = vfh::hmix(h, (uint64_t)x); R.nontrivial(h); }
        if (R.want_sample() && want.size() > 5 && mode == 2) R.sample(wit);
      } catch (std::exception &e) {
        R.violation("index/exception-on-valid-set", std::string("exception on a valid index set: ") + e.what(), wit);
      }
    }
    // ---- string -> vector
    {
      std::string s;
      std::vector<Index> want;
      int nt = (int)rng.range(0, 8);
      static const std::vector<std::string> SEP = {" ", " ", ",", "\n", "\t", "  ", ", "};
      bool open_form = false;
      for (int k = 0; k < nt; ++k) {
        Index a = rng.range(0, 200);
        if (rng.coin(0.5)) { s += std::to_string(a); want.push_back(a); }
        else {
          Index b = a + rng.range(0, 12);
          if (rng.coin(0.05)) { b = a - rng.range(1, 5); open_form = true; }  // reversed range: status open
          s += std::to_string(a) + ":" + std::to_string(b);
          for (Index x = a; x <= b; ++x) want.push_back(x);
        }
        if (k + 1 < nt || rng.coin(0.2)) s += rng.pick(SEP);
      }
      if (rng.coin(0.1)) s = " " + s;
      want = sorted_unique(want);
      R.eval("index_string_to_vector");
      J wit;
      wit.s("string", s).vec("expected", want);
      try {
        std::vector<Index> got = ip.CreateIndexVector(s);
        if (open_form) R.counter(got == want ? "obs_reversed_range_token_treated_as_empty" : "obs_reversed_range_token_other");
        else if (got != want) R.violation("index/string-to-vector", "CreateIndexVector differs from the denoted set", wit.vec("got", got));
        else if (want.size() >= 3) R.nontrivial(vfh::hstr(32, s));
      } catch (std::exception &e) {
        if (open_form) R.counter("obs_reversed_range_token_rejected");
        else R.violation("index/exception-on-valid-string", std::string("exception on a valid index string: ") + e.what(), wit);
      }
    }
  }
  // malformed index strings must be rejected
  static const char *mal[] = {"a", "1 b 3", "1:b", "x:3", "1:2:3", "1 2:", ":4", "3;4", "1.5"};
  for (const char *m : mal) {
    R.eval("index_malformed");
    bool rejected = false;
    std::vector<Index> got;
    try { got = ip.CreateIndexVector(m); } catch (std::exception &) { rejected = true; }
    if (!rejected) R.violation("index/malformed-accepted", "a malformed index string is accepted", J().s("string", m).vec("got", got));
  }
}

// ------------------------------------------------------------------ (D) BeadList::Generate
static void run_beadlist(vfh::Rng &rng, vfh::Reporter &R, long n) {
  using namespace votca::csg;
  static const std::vector<std::string> words = {"a", "b", "ab", "ba", "aa", "bb", "aab", "abb", "bab", "A", "C1", "C2", "CA", "H", "O1", "name", "na"};
  for (long i = 0; i < n; ++i) {
    Topology top;
    long nb = rng.range(0, 30);
    std::vector<std::string> types, names;
    for (long k = 0; k < nb; ++k) {
      std::string t = rng.pick(words), nm = rng.pick(words);
      if (rng.coin(0.3)) nm += std::to_string(rng.range(0, 3));
      if (!top.BeadTypeExist(t)) top.RegisterBeadType(t);
      top.CreateBead(Bead::spherical, nm, t, 0, 1.0, 0.0);
      types.push_back(t);
      names.push_back(nm);
    }
    for (int q = 0; q < 6; ++q) {
      std::string pat;
      int how = (int)rng.range(0, 4);
      if (how == 0) pat = rng.pick(words);
      else if (how == 1) pat = "*";
      else {
        int lp = (int)rng.range(1, 4);
        for (int k = 0; k < lp; ++k) { int c = (int)rng.range(0, 5); pat += c == 0 ? '*' : c == 1 ? '?' : c == 2 ? 'a' : c == 3 ? 'b' : (rng.coin() ? 'C' : '1'); }
      }
      if (pat.rfind("name:", 0) == 0) continue;
      bool byname = rng.coin();
      std::string sel = byname ? "name:" + pat : pat;
      std::vector<long> want;
      for (long k = 0; k < nb; ++k) if (glob_dp(pat, byname ? names[k] : types[k])) want.push_back(k);
      BeadList bl;
      Index cnt = bl.Generate(top, sel);
      std::vector<long> got;
      for (Bead *b : bl) got.push_back((long)b->getId());
      R.eval(byname ? "beadlist_by_name" : "beadlist_by_type");
      if (!want.empty() && want.size() != (size_t)nb) R.nontrivial(vfh::hstr(vfh::hmix(41, (uint64_t)i), sel));
      if (got != want || cnt != (Index)want.size()) {
        std::string tn;
        for (long k = 0; k < nb; ++k) tn += types[k] + "/" + names[k] + " ";
        R.violation(byname ? "beadlist/name-selection" : "beadlist/type-selection", "BeadList::Generate does not return exactly the matching beads", J().s("select", sel).s("beads_type/name", tn).vec("got_ids", got).vec("expected_ids", want).i("returned_count", cnt));
      }
    }
  }
}

// ------------------------------------------------------------------ (D2) bead selection on registered / reader-built topologies
// Types and names may contain '*' and '?' themselves (old nucleic-acid atom names C5*, O5*, ...). In the pattern these
// characters are wildcards, in the bead's own type / name they are literal characters to be matched.
struct BL2Bead { std::string name, type; };
static void run_beadlist2(vfh::Rng &rng, vfh::Reporter &R, long n, const std::string &tmpdir, long shard) {
  using namespace votca::csg;
  static const std::vector<std::string> words = {"C5*", "C4*", "O5*", "C5", "C5M", "C4", "O5", "C4'", "H5''", "H5'", "C?", "C1", "C2", "CA", "*", "?", "A*B", "AxB", "AB", "a*", "a", "ab", "b", "H", "N1", "O*", "OP1"};
  static const std::vector<std::string> pdbwords = {"C5*", "C4*", "O5*", "C5", "C5M", "C4", "O5", "C4'", "H5''", "H5'", "C?", "C1", "C2", "CA", "H", "N1", "O*", "OP1", "N?", "C*"};
  static bool plugins = false;
  if (!plugins) { TopologyReader::RegisterPlugins(); plugins = true; }
  std::ostringstream devnull;
  for (long it = 0; it < n; ++it) {
    Topology top;
    int mode = (int)(it % 5);  // 0 unregistered, 1 registered, 2 gro reader, 3 pdb reader, 4 xml reader
    if (tmpdir.empty() && mode >= 2) mode = (int)(it % 2);
    long nb = rng.range(1, 24);
    std::vector<BL2Bead> beads;
    bool force_family = rng.coin(0.5);  // wildcard type + other types its glob matches
    for (long k = 0; k < nb; ++k) {
      const std::vector<std::string> &W = mode == 3 ? pdbwords : words;
      std::string t = rng.pick(W), nm = rng.pick(W);
      if (force_family && k < 4) { static const char *fam[] = {"C5*", "C5", "C5M", "C4*"}; t = fam[k]; if (rng.coin()) nm = fam[(k + 1) % 4]; }
      if (mode == 2 || mode == 3) nm = t;  // these readers use the atom name as the type
      beads.push_back({nm, t});
    }
    std::string how;
    try {
      if (mode <= 1) {
        how = mode == 0 ? "CreateBead, empty type registry" : "RegisterBeadType for every type + CreateBead";
        for (auto &b : beads) {
          if (mode == 1 && !top.BeadTypeExist(b.type)) top.RegisterBeadType(b.type);
          top.CreateBead(Bead::spherical, b.name, b.type, 0, 1.0, 0.0);
        }
        R.counter(mode == 0 ? "beadlist_topologies_unregistered" : "beadlist_topologies_registered");
      } else {
        std::string ext = mode == 2 ? "gro" : mode == 3 ? "pdb" : "xml";
        std::string fn = tmpdir + "/bl_" + std::to_string(shard) + "_" + std::to_string(it) + "." + ext;
        {
          std::ofstream f(fn);
          char buf[256];
          if (mode == 2) {
            f << "generated\n" << nb << "\n";
            for (long k = 0; k < nb; ++k) {
              snprintf(buf, sizeof buf, "%5d%-5s%5s%5ld%8.3f%8.3f%8.3f%8.4f%8.4f%8.4f\n", 1, "NUC", beads[k].name.c_str(), k + 1, 0.0, 0.0, 0.0, 0.0, 0.0, 0.0);
              f << buf;
            }
            f << "   5.00000   5.00000   5.00000\n";
          } else if (mode == 3) {
            f << "CRYST1   50.000   50.000   50.000  90.00  90.00  90.00 P 1           1\n";
            for (long k = 0; k < nb; ++k) {
              char el = beads[k].name[0];
              snprintf(buf, sizeof buf, "ATOM  %5ld %-4s %3s %c%4d    %8.3f%8.3f%8.3f%6.2f%6.2f          %2c%2s\n", k + 1, beads[k].name.c_str(), "NUC", 'A', 1, 0.0, 0.0, 0.0, 1.0, 0.0, el, " 0");
              f << buf;
            }
            f << "END\n";
          } else {
            // one molecule per bead: the xml reader wants unique bead names inside a molecule
            f << "<topology>\n <molecules>\n";
            for (long k = 0; k < nb; ++k)
              f << "  <molecule name=\"M" << k << "\" nmols=\"1\" nbeads=\"1\">\n   <bead name=\"" << beads[k].name << "\" type=\"" << beads[k].type << "\" mass=\"1\" q=\"0\"/>\n  </molecule>\n";
            f << " </molecules>\n</topology>\n";
          }
        }
        how = "read from a generated ." + ext + " file";
        std::streambuf *old = std::cout.rdbuf(devnull.rdbuf()), *olde = std::cerr.rdbuf(devnull.rdbuf());  // the readers are chatty
        try {
          auto reader = TopReaderFactory().Create(fn);
          reader->ReadTopology(fn, top);
        } catch (...) { std::cout.rdbuf(old); std::cerr.rdbuf(olde); unlink(fn.c_str()); throw; }
        std::cout.rdbuf(old);
        std::cerr.rdbuf(olde);
        devnull.str("");
        unlink(fn.c_str());
        R.counter("beadlist_topologies_reader_" + ext);
        if ((long)top.BeadCount() != nb) { R.violation("beadlist/reader-bead-count", "reader-built topology has a different number of beads", J().s("how", how).i("got", top.BeadCount()).i("expected", nb)); continue; }
        // what the reader stored is what is matched against
        bool same = true;
        for (long k = 0; k < nb; ++k) same &= (top.getBead(k)->getType() == beads[k].type && top.getBead(k)->getName() == beads[k].name);
        if (!same) { R.counter("beadlist_reader_stored_other_names_than_written"); for (long k = 0; k < nb; ++k) { beads[k].type = top.getBead(k)->getType(); beads[k].name = top.getBead(k)->getName(); } }
      }
    } catch (std::exception &e) {
      R.inconclusive(std::string("beadlist: building a topology failed (") + how + "): " + e.what());
      continue;
    }
    // positions and box (for the spherical sub-volume)
    bool open_box = rng.coin(0.4);
    Eigen::Matrix3d box = Eigen::Matrix3d::Zero();
    double L = rng.uni(4, 9);
    if (!open_box) box.diagonal() << L, L, L;
    top.setBox(box);
    std::vector<Eigen::Vector3d> pos(nb);
    for (long k = 0; k < nb; ++k) { pos[k] = Eigen::Vector3d(rng.uni(0, L), rng.uni(0, L), rng.uni(0, L)); top.getBead(k)->setPos(pos[k]); }
    std::set<std::string> registered;
    for (auto &b : beads) if (top.BeadTypeExist(b.type)) registered.insert(b.type);
    // selections: equal to a type / name of the topology, prefixes, ordinary globs
    std::vector<std::string> sels;
    for (int q = 0; q < 3; ++q) sels.push_back(beads[rng.next() % nb].type);
    sels.push_back(beads[rng.next() % nb].name);
    for (auto &b : beads) if (b.type.find_first_of("*?") != std::string::npos && rng.coin(0.7)) sels.push_back(b.type);
    { std::string t = beads[rng.next() % nb].type; sels.push_back(t.substr(0, 1 + rng.next() % t.size())); sels.push_back(t.substr(0, 1 + rng.next() % t.size()) + "*"); }
    for (int q = 0; q < 3; ++q) {
      std::string pat;
      int lp = (int)rng.range(1, 4);
      static const std::string al = "*?C5aOAB4'M";
      for (int k = 0; k < lp; ++k) pat += al[rng.next() % al.size()];
      sels.push_back(pat);
    }
    sels.push_back("*");
    std::string desc;
    for (long k = 0; k < nb; ++k) desc += beads[k].type + "/" + beads[k].name + " ";
    for (const std::string &pat : sels) {
      if (pat.rfind("name:", 0) == 0) continue;
      for (int byname = 0; byname < 2; ++byname) {
        std::string sel = byname ? "name:" + pat : pat;
        bool wildpat = pat.find_first_of("*?") != std::string::npos;
        bool eq_reg_wild = !byname && wildpat && registered.count(pat);
        if (eq_reg_wild) R.counter("beadlist_selections_equal_to_a_registered_wildcard_type");
        std::vector<long> match;
        for (long k = 0; k < nb; ++k) if (glob_dp(pat, byname ? beads[k].name : beads[k].type)) match.push_back(k);
        bool glob_matches_other = false;
        for (long k : match) glob_matches_other |= ((byname ? beads[k].name : beads[k].type) != pat);
        if (eq_reg_wild && glob_matches_other) R.counter("beadlist_selections_equal_to_registered_wildcard_type_and_glob_matches_other_types");
        auto wit = [&](const std::vector<long> &got, const std::vector<long> &want) {
          J j;
          j.s("topology", how).s("select", sel).s("beads_type/name", desc).vec("got_ids", got).vec("expected_ids", want).b("selection_is_a_registered_type", registered.count(pat) > 0);
          return j;
        };
        // Generate
        {
          BeadList bl;
          Index cnt = bl.Generate(top, sel);
          std::vector<long> got;
          for (Bead *b : bl) got.push_back((long)b->getId());
          R.eval(byname ? "beadlist2_generate_by_name" : "beadlist2_generate_by_type");
          if (got != match || cnt != (Index)match.size())
            R.violation(eq_reg_wild ? "beadlist/registered-wildcard-type/selection-differs" : byname ? "beadlist/name-selection" : "beadlist/type-selection",
                        "BeadList::Generate does not return exactly the beads whose type/name matches the pattern", wit(got, match));
        }
        // GenerateInSphericalSubvolume
        {
          Eigen::Vector3d ref(rng.uni(0, L), rng.uni(0, L), rng.uni(0, L));
          double radius = rng.uni(0.5, open_box ? 1.2 * L : 0.45 * L);
          std::vector<long> want;
          bool band = false;
          for (long k : match) {
            Eigen::Vector3d d = pos[k] - ref;
            if (!open_box) for (int c = 0; c < 3; ++c) d[c] -= L * std::round(d[c] / L);
            double dist = d.norm();
            if (std::fabs(dist - radius) < 1e-9 * L) band = true;
            if (dist <= radius) want.push_back(k);
          }
          if (band) { R.counter("beadlist_subvolume_bead_on_the_sphere_skipped"); continue; }
          BeadList bl;
          Index cnt = bl.GenerateInSphericalSubvolume(top, sel, ref, radius);
          std::vector<long> got;
          for (Bead *b : bl) got.push_back((long)b->getId());
          R.eval(byname ? "beadlist2_subvolume_by_name" : "beadlist2_subvolume_by_type");
          if (got != want || cnt != (Index)want.size()) {
            J j = wit(got, want);
            j.vec("ref", std::vector<double>{ref.x(), ref.y(), ref.z()}).d("radius", radius).d("box_edge_or_0_for_open", open_box ? 0.0 : L);
            R.violation(eq_reg_wild ? "beadlist/registered-wildcard-type/selection-differs/subvolume" : byname ? "beadlist/name-selection/subvolume" : "beadlist/type-selection/subvolume",
                        "BeadList::GenerateInSphericalSubvolume does not return exactly the matching beads inside the sphere", j);
          }
          if (!want.empty() && want.size() != (size_t)nb) R.nontrivial(vfh::hstr(vfh::hstr(vfh::hmix(42, (uint64_t)it), sel), desc));
        }
        if (R.want_sample() && eq_reg_wild && glob_matches_other && match.size() >= 2) R.sample(wit(match, match));
      }
    }
  }
}

// ------------------------------------------------------------------ (E) Topology::RenameMolecules(range, name) and the xml <rename range=".."/>
// The range expression names 1-based molecule ids; an id beyond the molecule count makes the function throw.
static void run_rename(vfh::Rng &rng, vfh::Reporter &R, long n, const std::string &tmpdir, long shard) {
  using namespace votca::csg;
  static bool plugins = false;
  if (!plugins) { TopologyReader::RegisterPlugins(); plugins = true; }
  std::ostringstream devnull;
  for (long it = 0; it < n; ++it) {
    long nmol = rng.range(4, 40);
    // blocks with ids in 1..nmol (sometimes beyond), direction consistent with the stride
    int nb = (int)rng.range(1, 3);
    bool beyond = rng.coin(0.08);
    std::set<long> want;
    std::string expr;
    bool blank_at_colon = false, any_blank = false, negstride = false;
    auto blanks = [&](double p) { std::string b; if (rng.coin(p)) { b = rng.coin(0.8) ? " " : "  "; any_blank = true; } return b; };
    expr += blanks(0.15);
    for (int q = 0; q < nb; ++q) {
      long hi = beyond ? nmol + 6 : nmol;
      long a = rng.range(1, hi), b = rng.range(1, hi), s = rng.range(1, rng.coin(0.7) ? 3 : 7);
      int fields = (int)rng.range(1, 3);
      if (fields == 1) b = a;
      if (fields == 2) { s = 1; if (a > b) std::swap(a, b); }
      if (fields == 3) { if (rng.coin(0.3)) { s = -s; negstride = true; if (a < b) std::swap(a, b); } else if (a > b) std::swap(a, b); }
      if (s > 0) for (long v = a; v <= b; v += s) want.insert(v); else for (long v = a; v >= b; v += s) want.insert(v);
      if (q) { expr += blanks(0.3) + "," + blanks(0.3); }
      auto colon = [&]() { std::string l = blanks(0.3), r = blanks(0.3); if (!l.empty() || !r.empty()) blank_at_colon = true; return l + ":" + r; };
      expr += std::to_string(a);
      if (fields == 2) expr += colon() + std::to_string(b);
      if (fields == 3) expr += colon() + std::to_string(s) + colon() + std::to_string(b);
    }
    expr += blanks(0.15);
    bool out_of_range = !want.empty() && *want.rbegin() > nmol;
    // what RangeParser itself says about the expression
    bool rp_accepts = true;
    try { votca::tools::RangeParser rp; rp.Parse(expr); } catch (std::exception &) { rp_accepts = false; }
    if (blank_at_colon) R.counter("rename_expressions_with_blank_adjacent_to_colon");
    if (any_blank) R.counter("rename_expressions_with_blanks");
    if (negstride) R.counter("rename_expressions_with_negative_stride");
    if (out_of_range) R.counter("rename_expressions_with_id_beyond_molecule_count");
    for (int route = 0; route < (tmpdir.empty() ? 1 : 2); ++route) {
      Topology top;
      bool threw = false;
      std::string what;
      const char *fam = route == 0 ? "rename_molecules_library" : "rename_molecules_xml";
      std::string sfx = route == 0 ? "" : "/xml";
      try {
        if (route == 0) {
          for (long k = 0; k < nmol; ++k) top.CreateMolecule("OLD");
          top.RenameMolecules(expr, "NEW");
        } else {
          std::string fn = tmpdir + "/rn_" + std::to_string(shard) + "_" + std::to_string(it) + ".xml";
          {
            std::ofstream f(fn);
            f << "<topology>\n <molecules>\n  <molecule name=\"OLD\" nmols=\"" << nmol << "\" nbeads=\"1\">\n   <bead name=\"A\" type=\"A\" mass=\"1\" q=\"0\"/>\n  </molecule>\n"
              << "  <rename name=\"NEW\" range=\"" << expr << "\"/>\n </molecules>\n</topology>\n";
          }
          std::streambuf *old = std::cout.rdbuf(devnull.rdbuf()), *olde = std::cerr.rdbuf(devnull.rdbuf());
          try {
            auto reader = TopReaderFactory().Create(fn);
            reader->ReadTopology(fn, top);
          } catch (...) { std::cout.rdbuf(old); std::cerr.rdbuf(olde); unlink(fn.c_str()); throw; }
          std::cout.rdbuf(old); std::cerr.rdbuf(olde);
          devnull.str("");
          unlink(fn.c_str());
        }
      } catch (std::exception &e) { threw = true; what = e.what(); }
      R.eval(fam);
      J wit;
      wit.s("range", expr).i("molecules", nmol).s("route", route == 0 ? "Topology::RenameMolecules" : "xml topology <rename name=\"NEW\" range=..>").vec("expected_renamed_ids_1based", want).b("range_parser_accepts", rp_accepts).b("threw", threw).s("exception", what);
      if (!rp_accepts) { R.counter(threw ? "rename_rejected_like_the_parser" : "obs_rename_accepts_what_the_parser_rejects"); continue; }
      if (out_of_range) { R.counter(threw ? "rename_id_beyond_count_throws" : "obs_rename_id_beyond_count_accepted"); continue; }
      if (threw) { R.violation("rename-molecules/valid-range-rejected" + sfx, "a range expression that RangeParser accepts and that names existing molecules is rejected: " + what, wit); continue; }
      if ((long)top.MoleculeCount() != nmol) { R.inconclusive("rename family: molecule count differs"); continue; }
      std::vector<long> got;
      for (long k = 0; k < nmol; ++k) if (top.getMolecule(k)->getName() == "NEW") got.push_back(k + 1);
      std::vector<long> w(want.begin(), want.end());
      if (got != w) R.violation("rename-molecules/renamed-set-differs" + sfx, "the molecules that carry the new name are not the ones the range expression denotes", wit.vec("got_renamed_ids_1based", got));
      else if (w.size() >= 2 && w.size() < (size_t)nmol) R.nontrivial(vfh::hstr(vfh::hmix(51 + route, (uint64_t)nmol), expr));
      if (R.want_sample() && blank_at_colon && route == 1 && w.size() >= 3) R.sample(wit.vec("got_renamed_ids_1based", got));
    }
  }
}

int main(int argc, char **argv) {
  vfh::Args A(argc, argv);
  long seed = A.num("seed", 1), shard = A.num("shard", 0), nshards = A.num("shards", 16);
  int plen = (int)A.num("plen", 6), slen = (int)A.num("slen", 7);
  long nrandom = A.num("wild-random", 5000), nmulti = A.num("range-multi", 300), nindex = A.num("index", 500), nbead = A.num("beadlist", 100);
  vfh::Reporter R;
  R.max_samples = 6;
  if (A.has("expr")) {  // replay of one range expression (judged as a single opaque block list is not possible: print what happens)
    std::string e = A.str("expr");
    ForkRes f = run_forked([&]() { return encode(observe(e)); });
    R.eval("replay_range"); R.nontrivial(1); R.nontrivial(2);
    if (!f.ok) R.violation("range/abort", f.timeout ? "no termination within the watchdog" : "aborted", J().s("expression", e));
    else {
      Outcome o = decode(f.result);
      std::vector<long> head(o.seq.begin(), o.seq.begin() + std::min<size_t>(o.seq.size(), 24));
      R.sample(J().s("expression", e).b("rejected", o.rejected).b("iteration_exceeded_1e6_steps", o.nonterm).vec("sequence_first24", head).s("printed", o.printed));
    }
    R.summary();
    return 0;
  }
  if (A.has("pattern")) {
    std::string p = A.str("pattern"), s = A.str("string");
    bool want = glob_dp(p, s), got = votca::tools::wildcmp(p, s) != 0;
    R.eval("replay_wildcmp"); R.nontrivial(1); R.nontrivial(2);
    if (got != want) R.violation("wildcmp/differs-from-glob", "wildcmp differs from the reference glob matcher", J().s("pattern", p).s("string", s).b("got", got).b("expected", want));
    else R.sample(J().s("pattern", p).s("string", s).b("match", got));
    R.summary();
    return 0;
  }
  uint64_t s = (uint64_t)seed * 7919 + (uint64_t)shard * 104729;
  if (A.has("only-rename")) {  // own process: an abort inside RenameMolecules must not take the other families down
    vfh::Rng r(s + 18183);
    run_rename(r, R, A.num("rename", nbead * 4), A.str("tmpdir", ""), shard);
    R.summary();
    return 0;
  }
  { vfh::Rng r(s + 18); run_wild(r, R, shard, nshards, plen, slen, nrandom); }
  { vfh::Rng r(s + 181); run_range(r, R, shard, nshards, nmulti); }
  { vfh::Rng r(s + 1811); run_range_adjacent(r, R, shard, nshards, nmulti / 2 + 1); }
  { vfh::Rng r(s + 1812); run_range_reuse(r, R, nmulti / 2 + 1); }
  { vfh::Rng r(s + 1818); run_index(r, R, nindex); }
  { vfh::Rng r(s + 1819); run_index_reuse(r, R, nindex / 4 + 1); }
  { vfh::Rng r(s + 18181); run_beadlist(r, R, nbead); }
  { vfh::Rng r(s + 18182); run_beadlist2(r, R, nbead, A.str("tmpdir", ""), shard); }
  if (!A.has("skip-rename")) { vfh::Rng r(s + 18183); run_rename(r, R, A.num("rename", nbead * 4), A.str("tmpdir", ""), shard); }
  R.summary();
  return 0;
}
