// C15 monitor: classical multipole interactions (DESIGN.md §5 C15).
// Real code: eeInteractor::CalcStaticEnergy_site / CalcStaticEnergy /
// ApplyStaticField / FillTholeInteraction on generated StaticSite / PolarSite /
// StaticSegment / PolarSegment objects, StaticSite::Rotate / Translate,
// DipoleDipoleInteraction. Oracles (long double): exchange symmetry, rigid
// rotation (the code's Rotate and an independent Cartesian rotation) and
// translation invariance, q1 q2 / R, explicit Coulomb sums over point-charge
// clusters with Richardson extrapolation, field = dE/dmu by finite differences
// of the code's own energy, Thole tensor symmetry / trace / undamped limit.
//
//   --seed S --shard k --n N
#include "vfh.h"
#include <cfloat>
#include <cstring>
#include <omp.h>
#include <votca/xtp/checkpoint.h>
#include <votca/xtp/dipoledipoleinteraction.h>
#include <votca/xtp/eeinteractor.h>

using namespace votca::xtp;
using votca::Index;
using vfh::J;
typedef long double LD;
static const double EPS = DBL_EPSILON;

// ------------------------------------------------------------------ small long double linear algebra
struct V3 { LD x, y, z; };
static V3 operator+(V3 a, V3 b) { return {a.x + b.x, a.y + b.y, a.z + b.z}; }
static V3 operator-(V3 a, V3 b) { return {a.x - b.x, a.y - b.y, a.z - b.z}; }
static V3 operator*(LD s, V3 a) { return {s * a.x, s * a.y, s * a.z}; }
static LD dot(V3 a, V3 b) { return a.x * b.x + a.y * b.y + a.z * b.z; }
static LD norm(V3 a) { return sqrtl(dot(a, a)); }
struct M3 {
  LD m[3][3];
};
static M3 mul(const M3 &a, const M3 &b) {
  M3 c;
  for (int i = 0; i < 3; ++i)
    for (int j = 0; j < 3; ++j) {
      c.m[i][j] = 0;
      for (int k = 0; k < 3; ++k) c.m[i][j] += a.m[i][k] * b.m[k][j];
    }
  return c;
}
static M3 transpose(const M3 &a) {
  M3 c;
  for (int i = 0; i < 3; ++i)
    for (int j = 0; j < 3; ++j) c.m[i][j] = a.m[j][i];
  return c;
}
static V3 mul(const M3 &a, V3 v) {
  return {a.m[0][0] * v.x + a.m[0][1] * v.y + a.m[0][2] * v.z, a.m[1][0] * v.x + a.m[1][1] * v.y + a.m[1][2] * v.z, a.m[2][0] * v.x + a.m[2][1] * v.y + a.m[2][2] * v.z};
}
// cyclic Jacobi for a symmetric 3x3 matrix: A = sum_k w[k] e_k e_k^T (columns of E)
static void jacobi(M3 A, LD w[3], M3 &E) {
  for (int i = 0; i < 3; ++i)
    for (int j = 0; j < 3; ++j) E.m[i][j] = (i == j);
  for (int sweep = 0; sweep < 60; ++sweep) {
    LD off = fabsl(A.m[0][1]) + fabsl(A.m[0][2]) + fabsl(A.m[1][2]);
    LD dg = fabsl(A.m[0][0]) + fabsl(A.m[1][1]) + fabsl(A.m[2][2]);
    if (off <= 1e-22L * (dg + off)) break;
    for (int p = 0; p < 2; ++p)
      for (int q = p + 1; q < 3; ++q) {
        if (A.m[p][q] == 0) continue;
        LD theta = (A.m[q][q] - A.m[p][p]) / (2 * A.m[p][q]);
        LD t = (theta >= 0 ? 1 : -1) / (fabsl(theta) + sqrtl(theta * theta + 1));
        LD c = 1 / sqrtl(t * t + 1), s = t * c;
        M3 G;
        for (int i = 0; i < 3; ++i)
          for (int j = 0; j < 3; ++j) G.m[i][j] = (i == j);
        G.m[p][p] = c; G.m[q][q] = c; G.m[p][q] = s; G.m[q][p] = -s;
        A = mul(transpose(G), mul(A, G));
        E = mul(E, G);
      }
  }
  for (int k = 0; k < 3; ++k) w[k] = A.m[k][k];
}

// ------------------------------------------------------------------ site description
struct Spec {
  int rank = 0;
  Eigen::Vector3d pos = Eigen::Vector3d::Zero();
  Vector9d Q = Vector9d::Zero();  // Q00, Q11c(x), Q11s(y), Q10(z), Q20, Q21c, Q21s, Q22c, Q22s
  std::string element = "C";
};
static std::string sjson(const Spec &s) {
  J j;
  j.i("rank", s.rank).s("element", s.element).vec("pos_bohr", std::vector<double>{s.pos.x(), s.pos.y(), s.pos.z()}).vec("Q", std::vector<double>(s.Q.data(), s.Q.data() + 9));
  return j.str();
}
static StaticSite make_static(const Spec &s, Index id = 0) {
  StaticSite site(id, s.element, s.pos);
  site.setMultipole(s.Q, s.rank);
  return site;
}
static PolarSite make_polar(const Spec &s, Index id = 0) {
  PolarSite site(id, s.element, s.pos);
  site.setMultipole(s.Q, s.rank);
  return site;
}
static V3 ldpos(const Spec &s) { return {s.pos.x(), s.pos.y(), s.pos.z()}; }
static V3 dip(const Spec &s) { return {s.Q[1], s.Q[2], s.Q[3]}; }
// Stone's spherical -> traceless Cartesian quadrupole (independent of the code's conversion)
static M3 theta_of(const Vector9d &Q) {
  const LD s3 = sqrtl(3.0L);
  LD q20 = Q[4], q21c = Q[5], q21s = Q[6], q22c = Q[7], q22s = Q[8];
  M3 t;
  t.m[0][0] = -0.5L * q20 + 0.5L * s3 * q22c;
  t.m[1][1] = -0.5L * q20 - 0.5L * s3 * q22c;
  t.m[2][2] = q20;
  t.m[0][1] = t.m[1][0] = 0.5L * s3 * q22s;
  t.m[0][2] = t.m[2][0] = 0.5L * s3 * q21c;
  t.m[1][2] = t.m[2][1] = 0.5L * s3 * q21s;
  return t;
}
static void spherical_of(const M3 &t, LD out[5]) {
  const LD s3 = sqrtl(3.0L);
  out[0] = t.m[2][2];
  out[1] = 2 / s3 * t.m[0][2];
  out[2] = 2 / s3 * t.m[1][2];
  out[3] = (t.m[0][0] - t.m[1][1]) / s3;
  out[4] = 2 / s3 * t.m[0][1];
}
static LD frob(const M3 &t) {
  LD s = 0;
  for (int i = 0; i < 3; ++i)
    for (int j = 0; j < 3; ++j) s += t.m[i][j] * t.m[i][j];
  return sqrtl(s);
}
// magnitude "potential scale" of a site seen from distance R: |q| + |mu|/R + |Theta|/R^2
static LD pscale(const Spec &s, LD R) {
  LD v = fabsl((LD)s.Q[0]);
  if (s.rank > 0) v += norm(dip(s)) / R;
  if (s.rank > 1) v += frob(theta_of(s.Q)) / (R * R);
  return v;
}

// ------------------------------------------------------------------ point-charge clusters
struct PC { LD q; V3 r; };
static std::vector<PC> cluster(const Spec &s, LD d) {
  std::vector<PC> c;
  V3 p = ldpos(s);
  if (s.Q[0] != 0) c.push_back({(LD)s.Q[0], p});
  if (s.rank > 0) {
    V3 mu = dip(s);
    LD m = norm(mu);
    if (m > 0) {
      V3 u = (1 / m) * mu;
      c.push_back({m / d, p + (d / 2) * u});
      c.push_back({-m / d, p - (d / 2) * u});
    }
  }
  if (s.rank > 1) {
    M3 t = theta_of(s.Q), E;
    LD w[3];
    jacobi(t, w, E);
    for (int k = 0; k < 3; ++k) {
      if (w[k] == 0) continue;
      V3 e = {E.m[0][k], E.m[1][k], E.m[2][k]};
      LD ck = w[k] / (3 * d * d);  // sum_k ck = tr(Theta)/(3 d^2) = 0: no centre charge, no net charge
      c.push_back({ck, p + d * e});
      c.push_back({ck, p - d * e});
    }
  }
  return c;
}
static LD coulomb(const std::vector<PC> &a, const std::vector<PC> &b) {
  LD e = 0;
  for (const PC &x : a)
    for (const PC &y : b) e += x.q * y.q / norm(x.r - y.r);
  return e;
}
// Richardson in d^2 (cluster energies are even power series in d): d, d/2, d/4
static LD cluster_energy(const Spec &A, const Spec &B, LD d, LD *raw = nullptr) {
  LD e0 = coulomb(cluster(A, d), cluster(B, d));
  LD e1 = coulomb(cluster(A, d / 2), cluster(B, d / 2));
  LD e2 = coulomb(cluster(A, d / 4), cluster(B, d / 4));
  if (raw) { raw[0] = e0; raw[1] = e1; raw[2] = e2; }
  LD r1 = (4 * e1 - e0) / 3, r2 = (4 * e2 - e1) / 3;
  return (16 * r2 - r1) / 15;
}

// ------------------------------------------------------------------ generators
static Eigen::Vector3d rand_dir(vfh::Rng &r) {
  Eigen::Vector3d v(r.normal(), r.normal(), r.normal());
  if (r.coin(0.12)) {  // along an axis / in a coordinate plane (zeros in the direction cosines)
    int k = (int)r.range(0, 2);
    if (r.coin()) { v.setZero(); v[k] = r.coin() ? 1 : -1; }
    else v[k] = 0;
  }
  if (v.norm() == 0) v = Eigen::Vector3d(0, 0, 1);
  return v.normalized();
}
static double rand_mom(vfh::Rng &r) { return (r.coin() ? 1 : -1) * r.logu(0.01, 100.0); }
static const std::vector<std::string> ELEMENTS = {"H", "C", "N", "O", "S", "Si"};
static Spec gen_spec(vfh::Rng &r, int rank, bool pure, const Eigen::Vector3d &pos) {
  Spec s;
  s.rank = rank;
  s.pos = pos;
  s.element = r.pick(ELEMENTS);
  if (!pure || rank == 0) s.Q[0] = r.coin(0.1) ? 0.0 : rand_mom(r);
  if (rank >= 1 && (!pure || rank == 1)) {
    Eigen::Vector3d d = rand_dir(r) * r.logu(0.01, 100.0);
    s.Q.segment<3>(1) = d;
  }
  if (rank >= 2) {
    int c = (int)r.range(0, 5);
    if (c == 0) s.Q[4 + r.range(0, 4)] = rand_mom(r);  // a single spherical component
    else
      for (int k = 4; k < 9; ++k) s.Q[k] = rand_mom(r) * (r.coin(0.2) ? 0.0 : 1.0);
    if (s.Q.segment<5>(4).norm() == 0) s.Q[4] = 1.0;
  }
  return s;
}
static M3 rand_rotation(vfh::Rng &r) {
  LD a = r.normal(), b = r.normal(), c = r.normal(), d = r.normal();
  LD n = sqrtl(a * a + b * b + c * c + d * d);
  a /= n; b /= n; c /= n; d /= n;
  M3 R = {{{a * a + b * b - c * c - d * d, 2 * (b * c - a * d), 2 * (b * d + a * c)},
           {2 * (b * c + a * d), a * a - b * b + c * c - d * d, 2 * (c * d - a * b)},
           {2 * (b * d - a * c), 2 * (c * d + a * b), a * a - b * b - c * c + d * d}}};
  return R;
}
static Eigen::Matrix3d to_eigen(const M3 &R) {
  Eigen::Matrix3d m;
  for (int i = 0; i < 3; ++i)
    for (int j = 0; j < 3; ++j) m(i, j) = (double)R.m[i][j];
  return m;
}
// independent Cartesian rotation of a site about 'ref'
static Spec rotate_spec(const Spec &s, const Eigen::Matrix3d &Rd, const Eigen::Vector3d &ref) {
  M3 R;
  for (int i = 0; i < 3; ++i)
    for (int j = 0; j < 3; ++j) R.m[i][j] = Rd(i, j);  // exactly the matrix the code gets
  Spec o = s;
  V3 p = ldpos(s) - V3{ref.x(), ref.y(), ref.z()};
  V3 pr = mul(R, p);
  o.pos = Eigen::Vector3d((double)(pr.x + ref.x()), (double)(pr.y + ref.y()), (double)(pr.z + ref.z()));
  if (s.rank > 0) {
    V3 m = mul(R, dip(s));
    o.Q[1] = (double)m.x; o.Q[2] = (double)m.y; o.Q[3] = (double)m.z;
  }
  if (s.rank > 1) {
    M3 t = mul(R, mul(theta_of(s.Q), transpose(R)));
    LD q[5];
    spherical_of(t, q);
    for (int k = 0; k < 5; ++k) o.Q[4 + k] = (double)q[k];
  }
  return o;
}

struct Pair {
  Spec A, B;
  bool pure;
  LD R;
};
static std::string pjson(const Pair &p) {
  J j;
  j.raw("siteA", sjson(p.A)).raw("siteB", sjson(p.B)).d("separation_bohr", (double)p.R);
  return j.str();
}

int main(int argc, char **argv) {
  vfh::Args A(argc, argv);
  long seed = A.num("seed", 1), shard = A.num("shard", 0), n = A.num("n", 300);
  vfh::Rng r((uint64_t)seed * 7919 + (uint64_t)shard * 104729 + 15);
  vfh::Reporter R;
  eeInteractor ee;
  LD worst_cluster = 0, worst_sym = 0, worst_rot = 0;

  // --ddi K: the matrix-free dipole-dipole operator on K larger systems (two segments, 30..250 polar sites) applied with
  // 2..8 OpenMP threads, 12 products each: every product must equal the dense tensor built element by element, the
  // tensor must be symmetric, and x.(A y) = y.(A x). (The operator is what the induced-dipole solver iterates with.)
  long nddi = A.num("ddi", 0);
  if (nddi > 0) {
    for (long it = 0; it < nddi; ++it) {
      std::vector<PolarSegment> segs;
      long per = r.range(15, 125);
      for (int sgi = 0; sgi < 2; ++sgi) {
        PolarSegment ps("p", sgi);
        for (long k = 0; k < per; ++k) {
          PolarSite site(k, r.pick(ELEMENTS), Eigen::Vector3d(40.0 * sgi + r.uni(0, 30), r.uni(0, 30), r.uni(0, 30)));
          Eigen::Matrix3d a = Eigen::Matrix3d::Zero();
          a(0, 0) = r.uni(2, 12); a(1, 1) = r.uni(2, 12); a(2, 2) = r.uni(2, 12);
          a(0, 1) = a(1, 0) = r.uni(-1, 1); a(0, 2) = a(2, 0) = r.uni(-1, 1); a(1, 2) = a(2, 1) = r.uni(-1, 1);
          site.setpolarization(a);
          ps.push_back(site);
        }
        segs.push_back(ps);
      }
      DipoleDipoleInteraction op(ee, segs);
      Index N = op.rows();
      Eigen::MatrixXd D(N, N);
      for (Index i = 0; i < N; ++i)
        for (Index j = 0; j < N; ++j) D(i, j) = op(i, j);
      double dn = D.norm();
      int threads = (int)r.range(2, 8);
      omp_set_num_threads(threads);
      R.eval("ddi_operator_parallel/" + std::to_string(threads) + "threads");
      R.counter_max("ddi_parallel_max_sites_sum_over_shards", N / 3);
      R.nontrivial(vfh::hdouble(1234 + (uint64_t)N, D(0, N - 1)));
      bool bad = (D - D.transpose()).norm() > 1e-13 * dn;
      double worst = 0, worstxy = 0;
      for (int rep = 0; rep < 12 && !bad; ++rep) {
        Eigen::VectorXd x = Eigen::VectorXd::NullaryExpr(N, [&](Index) { return r.normal(); });
        Eigen::VectorXd y = Eigen::VectorXd::NullaryExpr(N, [&](Index) { return r.normal(); });
        Eigen::VectorXd ax = op * x, ay = op * y;
        R.counter("ddi_parallel_products", 2);
        worst = std::max(worst, (ax - D * x).norm() / (dn * x.norm()));
        worstxy = std::max(worstxy, std::abs(y.dot(ax) - x.dot(ay)) / (dn * x.norm() * y.norm()));
        if (worst > 1e-12 || worstxy > 1e-12) bad = true;
      }
      omp_set_num_threads(1);
      if (bad)
        R.violation("ddi/parallel-operator-inconsistent", "the matrix-free dipole-dipole operator applied with several OpenMP threads is not the symmetric tensor given by its elements",
                    J().i("polar_sites", N / 3).i("omp_threads", threads).d("asymmetry_of_elements", (D - D.transpose()).norm() / dn).d("multiply_error", worst).d("xAy_minus_yAx", worstxy));
    }
    R.summary();
    return 0;
  }

  for (long it = 0; it < n; ++it) {
    Pair p;
    int ra = (int)(it % 3), rb = (int)((it / 3) % 3);
    p.pure = r.coin(0.4);
    double sep;
    int sc = (int)r.range(0, 9);
    if (sc == 0) sep = 0.5;
    else if (sc == 1) sep = 100.0;
    else sep = r.logu(0.5, 100.0);
    Eigen::Vector3d origin = r.coin(0.3) ? Eigen::Vector3d::Zero() : Eigen::Vector3d(r.uni(-50, 50), r.uni(-50, 50), r.uni(-50, 50));
    Eigen::Vector3d dirv = rand_dir(r);
    p.A = gen_spec(r, ra, p.pure, origin);
    p.B = gen_spec(r, rb, p.pure, origin + sep * dirv);
    p.R = norm(ldpos(p.B) - ldpos(p.A));
    LD Rl = p.R;
    LD pa = pscale(p.A, Rl), pb = pscale(p.B, Rl);
    LD scale = pa * pb / Rl;  // magnitude of the largest contribution to the pair energy
    std::string fam = "rank" + std::to_string(ra) + "x" + std::to_string(rb);
    std::string pj = pjson(p);
    vfh::set_case(pj);
    auto W = [&]() { J w; w.raw("pair", pj).d("scale", (double)scale); return w; };
    if (scale == 0) { R.counter("skipped_all_moments_zero"); continue; }
    R.eval(fam);
    R.counter(p.pure ? "pure_rank_pairs" : "mixed_moment_pairs");

    StaticSite sA = make_static(p.A, 0), sB = make_static(p.B, 1);
    double eAB = ee.CalcStaticEnergy_site(sA, sB);
    double eBA = ee.CalcStaticEnergy_site(sB, sA);
    if (!std::isfinite(eAB) || !std::isfinite(eBA)) {
      R.violation("energy/not-finite", "pair energy of two sites at distinct positions is not finite", W().d("E_AB", eAB).d("E_BA", eBA));
      continue;
    }
    // (i) exchange symmetry
    {
      LD tol = 2e-13L * scale;
      LD err = fabsl((LD)eAB - (LD)eBA);
      worst_sym = std::max(worst_sym, err / scale);
      if (err > tol) R.violation("symmetry/" + fam, "E(A,B) != E(B,A)", W().d("E_AB", eAB).d("E_BA", eBA).d("tolerance", (double)tol));
    }
    // (iii) charges
    if (ra == 0 && rb == 0) {
      LD want = (LD)p.A.Q[0] * (LD)p.B.Q[0] / Rl;
      if (fabsl((LD)eAB - want) > 8.0L * EPS * fabsl(want) * (1 + (LD)(p.A.pos.norm() + p.B.pos.norm()) / Rl))
        R.violation("charges/not-q1q2-over-R", "energy of two point charges is not q1 q2 / R", W().d("E", eAB).d("expected", (double)want));
    }
    // (iv) point-charge clusters realising the same moments, Richardson-extrapolated
    {
      LD d = 0.04L * Rl, raw[3];
      LD want = cluster_energy(p.A, p.B, d, raw);
      LD tol = 5e-7L * scale;
      LD err = fabsl((LD)eAB - want);
      worst_cluster = std::max(worst_cluster, err / scale);
      if (err > tol)
        R.violation("cluster/" + fam, "multipole energy differs from the Coulomb energy of point-charge clusters with the same moments", W().d("E", eAB).d("cluster_extrapolated", (double)want).d("cluster_d", (double)raw[0]).d("cluster_d_half", (double)raw[1]).d("cluster_d_quarter", (double)raw[2]).d("d_bohr", (double)d).d("tolerance", (double)tol));
      if (R.want_sample() && it % 97 == 11) R.sample(W().d("E_AB", eAB).d("E_BA", eBA).d("cluster_extrapolated", (double)want));
    }
    // (ii) common rotation: the code's Rotate and an independent Cartesian rotation
    {
      M3 Rl3 = rand_rotation(r);
      Eigen::Matrix3d Rd = to_eigen(Rl3);
      Eigen::Vector3d ref = r.coin() ? p.A.pos : Eigen::Vector3d(origin + Eigen::Vector3d(r.uni(-5, 5), r.uni(-5, 5), r.uni(-5, 5)));
      StaticSite rA = sA, rB = sB;
      rA.Rotate(Rd, ref);
      rB.Rotate(Rd, ref);
      double eR = ee.CalcStaticEnergy_site(rA, rB);
      LD lever = (LD)((p.A.pos - ref).norm() + (p.B.pos - ref).norm());
      LD tol = 5e-13L * scale * (1 + lever / Rl);
      worst_rot = std::max(worst_rot, fabsl((LD)eR - (LD)eAB) / scale);
      R.eval("rotation");
      if (fabsl((LD)eR - (LD)eAB) > tol)
        R.violation("rotation/energy-" + fam, "energy changes under a common rotation of both sites (StaticSite::Rotate)", W().vec("rotation_rowmajor", std::vector<double>{Rd(0, 0), Rd(0, 1), Rd(0, 2), Rd(1, 0), Rd(1, 1), Rd(1, 2), Rd(2, 0), Rd(2, 1), Rd(2, 2)}).vec("ref", std::vector<double>{ref.x(), ref.y(), ref.z()}).d("E", eAB).d("E_rotated", eR).d("tolerance", (double)tol));
      // the pivot handed over as a reference to the site's own position (A.Rotate(R, A.getPos()), as one does to
      // rotate a pair/segment about one of its sites): the pivot must stay where it is
      {
        StaticSite aA = sA, aB = sB;
        aB.Rotate(Rd, aA.getPos());
        aA.Rotate(Rd, aA.getPos());
        double moved = (aA.getPos() - p.A.pos).norm();
        R.eval("rotation_about_own_position");
        if (moved > 16 * EPS * (p.A.pos.norm() + 1))
          R.violation("rotation/about-own-position-moves-site", "a site rotated about its own position (pivot passed as site.getPos()) is displaced", W().d("displacement", moved));
        else {
          double eO = ee.CalcStaticEnergy_site(aA, aB);
          LD tolO = 5e-13L * scale * (1 + 1);
          if (fabsl((LD)eO - (LD)eAB) > tolO)
            R.violation("rotation/energy-about-own-position-" + fam, "energy changes under a common rotation about the position of site A", W().d("E", eAB).d("E_rotated", eO).d("tolerance", (double)tolO));
        }
      }
      // moments after Rotate against the independent rotation
      Spec iA = rotate_spec(p.A, Rd, ref), iB = rotate_spec(p.B, Rd, ref);
      const Spec *isp[2] = {&iA, &iB};
      const StaticSite *rs[2] = {&rA, &rB};
      for (int k = 0; k < 2; ++k) {
        const Spec &o = k ? p.B : p.A;
        LD mn = o.rank > 0 ? norm(dip(o)) : 0, tn = o.rank > 1 ? frob(theta_of(o.Q)) : 0;
        bool bad = false;
        if (rs[k]->Q()[0] != o.Q[0]) bad = true;
        for (int c = 1; c < 4; ++c) if (fabsl((LD)rs[k]->Q()[c] - (LD)isp[k]->Q[c]) > 16.0L * EPS * mn) bad = true;
        for (int c = 4; c < 9; ++c) if (fabsl((LD)rs[k]->Q()[c] - (LD)isp[k]->Q[c]) > 32.0L * EPS * tn) bad = true;
        if ((rs[k]->getPos() - isp[k]->pos).norm() > 16 * EPS * (double)(lever + (LD)ref.norm() + 1)) bad = true;
        if (bad)
          R.violation("rotation/moments-rank" + std::to_string(o.rank), "StaticSite::Rotate gives other moments/position than an independent Cartesian rotation", J().raw("site", sjson(o)).vec("rotation_rowmajor", std::vector<double>{Rd(0, 0), Rd(0, 1), Rd(0, 2), Rd(1, 0), Rd(1, 1), Rd(1, 2), Rd(2, 0), Rd(2, 1), Rd(2, 2)}).vec("ref", std::vector<double>{ref.x(), ref.y(), ref.z()}).vec("Q_after_Rotate", std::vector<double>(rs[k]->Q().data(), rs[k]->Q().data() + 9)).vec("Q_expected", std::vector<double>(isp[k]->Q.data(), isp[k]->Q.data() + 9)));
      }
      // energy of the independently rotated pair
      double eI = ee.CalcStaticEnergy_site(make_static(iA), make_static(iB));
      if (fabsl((LD)eI - (LD)eAB) > tol)
        R.violation("rotation/energy-independent-" + fam, "energy is not invariant under an (independent) rigid rotation of positions and moments", W().vec("rotation_rowmajor", std::vector<double>{Rd(0, 0), Rd(0, 1), Rd(0, 2), Rd(1, 0), Rd(1, 1), Rd(1, 2), Rd(2, 0), Rd(2, 1), Rd(2, 2)}).vec("ref", std::vector<double>{ref.x(), ref.y(), ref.z()}).d("E", eAB).d("E_rotated", eI).d("tolerance", (double)tol));
      // translation
      Eigen::Vector3d sh = rand_dir(r) * r.logu(0.1, 1000.0);
      StaticSite tA = sA, tB = sB;
      tA.Translate(sh);
      tB.Translate(sh);
      double eT = ee.CalcStaticEnergy_site(tA, tB);
      LD M = (LD)(p.A.pos.norm() + p.B.pos.norm() + sh.norm());
      LD tolT = 2e-13L * scale + 8.0L * EPS * (M / Rl) * 6 * scale;
      R.eval("translation");
      if (fabsl((LD)eT - (LD)eAB) > tolT)
        R.violation("translation/energy-" + fam, "energy changes under a common translation", W().vec("shift", std::vector<double>{sh.x(), sh.y(), sh.z()}).d("E", eAB).d("E_translated", eT).d("tolerance", (double)tolT));
    }
    // (v) field on a polarisable site = dE/dmu (finite differences of the code's energy, exact: E is linear in mu)
    {
      StaticSegment seg1("src", 0);
      seg1.push_back(sA);
      PolarSegment seg2("pol", 1);
      seg2.push_back(make_polar(p.B, 0));
      bool noE = r.coin(0.3);
      double eF = noE ? ee.ApplyStaticField<StaticSegment, Estatic::noE_V>(seg1, seg2) : ee.ApplyStaticField<StaticSegment, Estatic::V>(seg1, seg2);
      Eigen::Vector3d V = noE ? seg2[0].V_noE() : seg2[0].V();
      Eigen::Vector3d Vother = noE ? seg2[0].V() : seg2[0].V_noE();
      R.eval("field");
      LD vscale = pa / (Rl * Rl);
      LD h = 1.0;
      if (vscale > 0) h = std::max((LD)1e-6, std::min((LD)1e6, scale / vscale));  // step that makes the mu-term comparable to E
      Eigen::Vector3d fd;
      for (int k = 0; k < 3; ++k) {
        Spec bp = p.B, bm = p.B;
        bp.rank = std::max(1, p.B.rank); bm.rank = bp.rank;
        bp.Q[1 + k] += (double)h; bm.Q[1 + k] -= (double)h;
        double ep = ee.CalcStaticEnergy_site(sA, make_static(bp)), em = ee.CalcStaticEnergy_site(sA, make_static(bm));
        double hh = (bp.Q[1 + k] - bm.Q[1 + k]);
        fd[k] = (ep - em) / hh;
      }
      LD tolV = 1e-12L * vscale + 16.0L * EPS * (scale + h * vscale) / h;
      if ((V - fd).norm() > (double)tolV || !(Vother.norm() == 0))
        R.violation("field/not-dE-dmu-rank" + std::to_string(ra) + "-on-rank" + std::to_string(rb), "field term accumulated on the polarisable site differs from dE/dmu of the pair energy", W().b("noE_V", noE).vec("V", std::vector<double>{V.x(), V.y(), V.z()}).vec("dE_dmu", std::vector<double>{fd.x(), fd.y(), fd.z()}).vec("other_field_slot", std::vector<double>{Vother.x(), Vother.y(), Vother.z()}).d("tolerance", (double)tolV));
      if (fabsl((LD)eF - (LD)eAB) > 2e-13L * scale)
        R.violation("field/returned-energy", "ApplyStaticField returns another energy than CalcStaticEnergy_site", W().d("returned", eF).d("E", eAB));
      // polar source segment: only its static moments act
      PolarSegment pseg1("srcp", 2);
      PolarSite pa1 = make_polar(p.A, 0);
      pa1.setInduced_Dipole(Eigen::Vector3d(1, 2, 3));
      pseg1.push_back(pa1);
      PolarSegment seg3("pol", 3);
      seg3.push_back(make_polar(p.B, 0));
      double eF2 = ee.ApplyStaticField<PolarSegment, Estatic::V>(pseg1, seg3);
      if ((seg3[0].V() - V).norm() > 1e-13 * (double)vscale || fabsl((LD)eF2 - (LD)eF) > 2e-13L * scale)
        R.violation("field/polar-source-differs", "static field of a PolarSegment source differs from that of the same static moments", W().vec("V_static_source", std::vector<double>{V.x(), V.y(), V.z()}).vec("V_polar_source", std::vector<double>{seg3[0].V().x(), seg3[0].V().y(), seg3[0].V().z()}));
    }
    // (v-b) induced field: ApplyInducedField accumulates on every target site sum_a T(a,b)^T mu_ind(a) (T the Thole
    // tensor), i.e. the derivative of the induced-induced pair energy w.r.t. the target's induced dipole; permanent
    // moments (already applied by ApplyStaticField) must not enter, so it is exactly zero without induced dipoles
    if (it % 2 == 0) {
      double adamp = r.coin(0.4) ? 0.39 : r.logu(0.01, 10.0);
      eeInteractor eei(adamp);
      double sepi = r.logu(2.5, 40.0);
      double spread = std::min(1.0, sepi / 6);
      Eigen::Vector3d di = rand_dir(r);
      PolarSegment s1("src", 0), s2("tgt", 1);
      std::vector<Spec> sp1, sp2;
      auto fill = [&](PolarSegment &seg, std::vector<Spec> &sp, const Eigen::Vector3d &centre, bool induced) {
        long ns = r.range(1, 3);
        for (long k = 0; k < ns; ++k) {
          Spec q = gen_spec(r, (int)r.range(0, 2), false, centre + spread * Eigen::Vector3d(r.uni(-1, 1), r.uni(-1, 1), r.uni(-1, 1)));
          PolarSite ps = make_polar(q, k);
          if (r.coin(0.7)) {
            Eigen::Vector3d ev(r.logu(0.5, 50.0), r.logu(0.5, 50.0), r.logu(0.5, 50.0));
            if (r.coin(0.4)) ev = Eigen::Vector3d::Constant(ev[0]);
            Eigen::Matrix3d U = to_eigen(rand_rotation(r));
            Eigen::Matrix3d al = U * ev.asDiagonal() * U.transpose();
            ps.setpolarization(0.5 * (al + al.transpose().eval()));
          }
          if (induced) ps.setInduced_Dipole(rand_dir(r) * r.logu(1e-3, 10.0));
          seg.push_back(ps);
          sp.push_back(q);
        }
      };
      fill(s1, sp1, origin, true);
      fill(s2, sp2, origin + sepi * di, true);
      auto polvec = [](const PolarSite &ps) {
        const Eigen::Matrix3d P = ps.getpolarization();  // returned by value: keep one copy
        return std::vector<double>(P.data(), P.data() + 9);
      };
      auto IW = [&]() {
        J w;
        std::string ja = "[", jb = "[";
        for (Index k = 0; k < s1.size(); ++k) ja += std::string(k ? "," : "") + J().raw("site", sjson(sp1[k])).vec("induced_dipole", std::vector<double>{s1[k].Induced_Dipole().x(), s1[k].Induced_Dipole().y(), s1[k].Induced_Dipole().z()}).vec("polarisation_colmajor", polvec(s1[k])).str();
        for (Index k = 0; k < s2.size(); ++k) jb += std::string(k ? "," : "") + J().raw("site", sjson(sp2[k])).vec("induced_dipole", std::vector<double>{s2[k].Induced_Dipole().x(), s2[k].Induced_Dipole().y(), s2[k].Induced_Dipole().z()}).vec("polarisation_colmajor", polvec(s2[k])).str();
        w.raw("source_segment", ja + "]").raw("target_segment", jb + "]").d("expdamping", adamp);
        return w;
      };
      R.eval("induced_field");
      for (int variant = 0; variant < 2; ++variant) {  // 0: Estatic::V, 1: Estatic::noE_V
        PolarSegment t = s2;
        double eret = variant ? eei.ApplyInducedField<Estatic::noE_V>(s1, t) : eei.ApplyInducedField<Estatic::V>(s1, t);
        for (Index b = 0; b < t.size(); ++b) {
          Eigen::Vector3d got = variant ? t[b].V_noE() : t[b].V();
          Eigen::Vector3d other = variant ? t[b].V() : t[b].V_noE();
          // expected from the real Thole tensor and the induced dipoles only
          Eigen::Vector3d want = Eigen::Vector3d::Zero();
          LD vsc = 0;
          for (Index a = 0; a < s1.size(); ++a) {
            want += eei.FillTholeInteraction(s1[a], s2[b]).transpose() * s1[a].Induced_Dipole();
            LD rab = (LD)(s1[a].getPos() - s2[b].getPos()).norm();
            vsc += (LD)s1[a].Induced_Dipole().norm() * 2.45L / (rab * rab * rab);
          }
          if ((got - want).norm() > 1e-12 * (double)vsc || other.norm() != 0)
            R.violation("induced-field/not-thole-tensor-times-induced-dipoles", "field accumulated by ApplyInducedField differs from sum_a T(a,b)^T mu_induced(a)", IW().i("target_site", b).b("noE_V", variant == 1).vec("field", std::vector<double>{got.x(), got.y(), got.z()}).vec("expected", std::vector<double>{want.x(), want.y(), want.z()}).vec("other_field_slot", std::vector<double>{other.x(), other.y(), other.z()}));
          // derivative of the induced-induced pair energy w.r.t. the target's induced dipole (linear: central difference is exact)
          Eigen::Vector3d mu0 = s2[b].Induced_Dipole();
          double hstep = std::max(1e-3, mu0.norm());
          Eigen::Vector3d fd;
          LD esc = 0;
          for (int k = 0; k < 3; ++k) {
            PolarSegment tp = s2, tm = s2;
            Eigen::Vector3d mp = mu0, mm = mu0;
            mp[k] += hstep; mm[k] -= hstep;
            tp[b].setInduced_Dipole(mp);
            tm[b].setInduced_Dipole(mm);
            eeInteractor::E_terms ep = eei.CalcPolarEnergy(s1, tp), em = eei.CalcPolarEnergy(s1, tm);
            fd[k] = (ep.E_indu_indu() - em.E_indu_indu()) / (mp[k] - mm[k]);
            esc = std::max(esc, (LD)std::fabs(ep.E_indu_indu()) + (LD)std::fabs(em.E_indu_indu()));
          }
          LD mu_all = 0;
          for (Index q = 0; q < s2.size(); ++q) mu_all += (LD)s2[q].Induced_Dipole().norm();
          LD tolfd = 1e-12L * vsc + 32.0L * EPS * (vsc * (mu_all + hstep) + esc) / hstep;
          if (variant == 0 && (got - fd).norm() > (double)tolfd)
            R.violation("induced-field/not-derivative-of-pair-energy", "field accumulated by ApplyInducedField differs from d E_indu_indu / d mu_induced(target) (finite differences of CalcPolarEnergy)", IW().i("target_site", b).vec("field", std::vector<double>{got.x(), got.y(), got.z()}).vec("dE_dmu", std::vector<double>{fd.x(), fd.y(), fd.z()}).d("tolerance", (double)tolfd));
        }
        // returned energy (V variant): the source's induced dipoles in the static field of the target = sum mu_ind(a) . V_static(target -> a)
        if (variant == 0) {
          PolarSegment srcc = s1;
          for (PolarSite &x : srcc) x.Reset();
          eei.ApplyStaticField<PolarSegment, Estatic::V>(s2, srcc);
          LD ewant = 0, escale = 0;
          for (Index a = 0; a < srcc.size(); ++a) {
            ewant += (LD)srcc[a].Induced_Dipole().dot(srcc[a].V());
            escale += (LD)srcc[a].Induced_Dipole().norm() * (LD)srcc[a].V().norm();
          }
          if (fabsl((LD)eret - ewant) > 1e-12L * escale + 1e-300L)
            R.violation("induced-field/returned-energy", "energy returned by ApplyInducedField<V> differs from sum_a mu_induced(a) . (static field of the target segment at a)", IW().d("returned", eret).d("expected", (double)ewant));
          // CalcPolarEnergy.E_indu_stat is that energy in both directions
          PolarSegment tb = s1;
          double eback = eei.ApplyInducedField<Estatic::V>(s2, tb);
          eeInteractor::E_terms et = eei.CalcPolarEnergy(s1, s2);
          PolarSegment srcb = s2;
          for (PolarSite &x : srcb) x.Reset();
          eei.ApplyStaticField<PolarSegment, Estatic::V>(s1, srcb);
          LD escale2 = escale;
          for (Index a = 0; a < srcb.size(); ++a) escale2 += (LD)srcb[a].Induced_Dipole().norm() * (LD)srcb[a].V().norm();
          if (fabsl((LD)et.E_indu_stat() - ((LD)eret + (LD)eback)) > 1e-12L * escale2 + 1e-300L)
            R.violation("induced-field/indu-stat-energy-inconsistent", "CalcPolarEnergy(...).E_indu_stat differs from the two energies returned by ApplyInducedField<V>", IW().d("E_indu_stat", et.E_indu_stat()).d("forward", eret).d("backward", eback));
        } else if (eret != 0.0) {
          R.violation("induced-field/returned-energy", "ApplyInducedField<noE_V> must not return an energy", IW().d("returned", eret));
        }
      }
      // no induced dipoles anywhere: exactly no induced field, although the permanent dipoles are there
      {
        PolarSegment z1 = s1, z2 = s2;
        for (PolarSite &x : z1) x.setInduced_Dipole(Eigen::Vector3d::Zero());
        for (PolarSite &x : z2) { x.setInduced_Dipole(Eigen::Vector3d::Zero()); x.Reset(); }
        bool perm = false;
        for (const Spec &q : sp1) if (q.rank >= 1 && q.Q.segment<3>(1).norm() > 0) perm = true;
        eei.ApplyInducedField<Estatic::V>(z1, z2);
        eei.ApplyInducedField<Estatic::noE_V>(z1, z2);
        R.eval("induced_field_without_induced_dipoles");
        if (perm) R.counter("induced_field_zero_cases_with_permanent_source_dipole");
        for (Index b = 0; b < z2.size(); ++b)
          if (z2[b].V().norm() != 0 || z2[b].V_noE().norm() != 0)
            R.violation("induced-field/nonzero-without-induced-dipoles", "ApplyInducedField accumulates a field although all induced dipoles are zero", IW().i("target_site", b).vec("V", std::vector<double>{z2[b].V().x(), z2[b].V().y(), z2[b].V().z()}).vec("V_noE", std::vector<double>{z2[b].V_noE().x(), z2[b].V_noE().y(), z2[b].V_noE().z()}));
      }
    }
    // segment level: sum over site pairs, all four template instantiations, exchange of the segments
    if (it % 5 == 0) {
      long na = r.range(1, 4), nb = r.range(1, 4);
      std::vector<Spec> SA, SB;
      StaticSegment a1("a", 0), b1("b", 1);
      PolarSegment a2("a", 0), b2("b", 1);
      for (long k = 0; k < na; ++k) { Spec s = gen_spec(r, (int)r.range(0, 2), false, origin + Eigen::Vector3d(r.uni(-1, 1), r.uni(-1, 1), r.uni(-1, 1))); SA.push_back(s); a1.push_back(make_static(s, k)); a2.push_back(make_polar(s, k)); }
      Eigen::Vector3d cB = origin + std::max(sep, 4.0) * dirv;
      for (long k = 0; k < nb; ++k) { Spec s = gen_spec(r, (int)r.range(0, 2), false, cB + Eigen::Vector3d(r.uni(-1, 1), r.uni(-1, 1), r.uni(-1, 1))); SB.push_back(s); b1.push_back(make_static(s, k)); b2.push_back(make_polar(s, k)); }
      LD sum = 0, sc = 0, clus = 0;
      for (const Spec &x : SA)
        for (const Spec &y : SB) {
          LD rr = norm(ldpos(x) - ldpos(y));
          sum += (LD)ee.CalcStaticEnergy_site(make_static(x), make_static(y));
          sc += pscale(x, rr) * pscale(y, rr) / rr;
          clus += cluster_energy(x, y, 0.04L * rr);
        }
      // already polarised sites: the static energy is that of the permanent moments, whatever induced dipoles the polar
      // sites carry at the time (half of the cases)
      bool polarised = r.coin(0.5);
      if (polarised) {
        for (PolarSite &x : a2) x.setInduced_Dipole(Eigen::Vector3d(r.uni(-1, 1), r.uni(-1, 1), r.uni(-1, 1)));
        for (PolarSite &x : b2) x.setInduced_Dipole(Eigen::Vector3d(r.uni(-1, 1), r.uni(-1, 1), r.uni(-1, 1)));
        R.counter("segments_with_induced_dipoles_on_the_polar_sites");
        // site level, arguments of static type PolarSite
        LD ssum = 0;
        for (const PolarSite &x : a2)
          for (const PolarSite &y : b2) ssum += (LD)ee.CalcStaticEnergy_site(x, y);
        if (fabsl(ssum - sum) > 1e-12L * sc)
          R.violation("segments/energy-depends-on-induced-dipoles", "CalcStaticEnergy_site called with polarised PolarSite arguments differs from the energy of their permanent moments", J().d("E_polar_sites", (double)ssum).d("E_static_copies", (double)sum));
      }
      double e[6] = {ee.CalcStaticEnergy(a1, b1), ee.CalcStaticEnergy(b1, a1), ee.CalcStaticEnergy(a2, b2), ee.CalcStaticEnergy(b2, a2), ee.CalcStaticEnergy(a1, b2), ee.CalcStaticEnergy(a2, b1)};
      // the same invariance at segment level: both segments rotated as a whole (segment.Rotate) about a common point
      {
        Eigen::Matrix3d Rs = to_eigen(rand_rotation(r));
        Eigen::Vector3d ref = r.coin() ? Eigen::Vector3d(origin) : Eigen::Vector3d(origin + Eigen::Vector3d(r.uni(-5, 5), r.uni(-5, 5), r.uni(-5, 5)));
        StaticSegment ra1 = a1, rb1 = b1;
        PolarSegment ra2 = a2, rb2 = b2;
        ra1.Rotate(Rs, ref); rb1.Rotate(Rs, ref); ra2.Rotate(Rs, ref); rb2.Rotate(Rs, ref);
        double es = ee.CalcStaticEnergy(ra1, rb1), ep = ee.CalcStaticEnergy(ra2, rb2);
        LD lever = 0;
        for (const Spec &x : SA) lever = std::max(lever, (LD)(x.pos - ref).norm());
        for (const Spec &y : SB) lever = std::max(lever, (LD)(y.pos - ref).norm());
        LD rmin = 1e300L;
        for (const Spec &x : SA) for (const Spec &y : SB) rmin = std::min(rmin, norm(ldpos(x) - ldpos(y)));
        LD tols = 5e-12L * sc * (1 + lever / rmin);
        int maxrank = 0;
        for (const Spec &x : SA) maxrank = std::max(maxrank, x.rank);
        for (const Spec &y : SB) maxrank = std::max(maxrank, y.rank);
        R.eval("segment_rotation/max-rank-" + std::to_string(maxrank));
        if (fabsl((LD)es - sum) > tols || fabsl((LD)ep - sum) > tols)
          R.violation("rotation/segment-energy", "energy of two segments changes under a common rotation of both segments (segment.Rotate: positions and moments)", J().i("max_rank", maxrank).d("E", (double)sum).d("E_static_segments_rotated", es).d("E_polar_segments_rotated", ep).d("tolerance", (double)tols));
      }
      R.eval("segments");
      for (int k = 0; k < 6; ++k)
        if (fabsl((LD)e[k] - sum) > 1e-12L * sc || fabsl((LD)e[k] - clus) > 5e-7L * sc) {
          J w;
          std::string ja = "[", jb = "[";
          for (size_t q = 0; q < SA.size(); ++q) ja += (q ? "," : "") + sjson(SA[q]);
          for (size_t q = 0; q < SB.size(); ++q) jb += (q ? "," : "") + sjson(SB[q]);
          w.raw("segmentA", ja + "]").raw("segmentB", jb + "]").b("polar_sites_carry_induced_dipoles", polarised).i("variant", k).d("E", e[k]).d("sum_of_site_pairs", (double)sum).d("cluster_sum", (double)clus);
          R.violation("segments/energy", "CalcStaticEnergy(segment,segment) differs from the sum over site pairs / the cluster energy (variants: SS, SS swapped, PP, PP swapped, SP, PS)", w);
          break;
        }
    }
    // (vi) Thole tensor
    {
      double a = r.coin(0.4) ? 0.39 : r.logu(0.01, 10.0);
      eeInteractor eet(a);
      PolarSite p1(0, p.A.element, p.A.pos), p2(1, p.B.element, p.B.pos);
      double amax1, amax2;
      bool custom = r.coin(0.7);
      if (custom) {
        auto setpol = [&](PolarSite &ps, double &amax) {
          Eigen::Vector3d ev(r.logu(0.1, 100.0), r.logu(0.1, 100.0), r.logu(0.1, 100.0));
          if (r.coin(0.4)) ev = Eigen::Vector3d::Constant(ev[0]);
          Eigen::Matrix3d U = to_eigen(rand_rotation(r));
          Eigen::Matrix3d al = U * ev.asDiagonal() * U.transpose();
          al = 0.5 * (al + al.transpose().eval());
          ps.setpolarization(al);
          amax = ev.maxCoeff();
        };
        setpol(p1, amax1);
        setpol(p2, amax2);
      } else {
        amax1 = p1.getpolarization().eigenvalues().real().maxCoeff();
        amax2 = p2.getpolarization().eigenvalues().real().maxCoeff();
      }
      // restart: in a third of the cases the two sites are what a checkpoint gives back (a PolarSegment written to an
      // HDF5 checkpoint file and read again; every 4th of these through the file, the others through the same row
      // structs in memory). A restored site must interact exactly like the site that was stored.
      if (r.coin(0.33)) {
        Eigen::Matrix3d Tmem = eet.FillTholeInteraction(p1, p2);
        bool through_file = r.coin(0.25);
        PolarSite q1 = p1, q2 = p2;
        if (through_file) {
          PolarSegment seg("restart", 0);
          seg.push_back(p1);
          seg.push_back(p2);
          std::string f = A.str("dir", ".") + "/c15_restart_" + std::to_string(shard) + ".hdf5";
          {
            CheckpointFile cf(f, CheckpointAccessLevel::CREATE);
            CheckpointWriter w = cf.getWriter("/seg");
            seg.WriteToCpt(w);
          }
          CheckpointFile cf(f, CheckpointAccessLevel::READ);
          CheckpointReader rd = cf.getReader("/seg");
          PolarSegment back(rd);
          q1 = back[0];
          q2 = back[1];
        } else {
          PolarSite::data d1, d2;
          p1.WriteData(d1);
          p2.WriteData(d2);
          // the table reader hands ReadData strings allocated by HDF5, which ReadData frees
          d1.element = strdup(d1.element);
          d2.element = strdup(d2.element);
          q1 = PolarSite(d1);
          q2 = PolarSite(d2);
        }
        R.eval(through_file ? "thole_restored_from_checkpoint_file" : "thole_restored_from_row_struct");
        Eigen::Matrix3d Tre = eet.FillTholeInteraction(q1, q2), Tmix = eet.FillTholeInteraction(p1, q2);
        // the stored quantity is the polarisability, the site keeps its inverse, rebuilt on reading with Eigen's
        // closed-form 3x3 eigen solver (computeDirect: documented as less accurate for nearly degenerate matrices;
        // 2.5e-9 relative was observed): a restored site equals the stored one to 1e-6 relative
        double tol = 1e-6 * Tmem.norm() + 1e-300;
        if ((q1.getpolarization() - p1.getpolarization()).norm() > 1e-6 * p1.getpolarization().norm() || !((Tre - Tmem).norm() <= tol) || !((Tmix - Tmem).norm() <= tol))
          R.violation("thole/restored-site-differs", "the damped dipole-dipole tensor of sites restored from a checkpoint differs from that of the sites that were stored",
                      J().b("through_file", through_file).d("expdamping", a).d("separation", (double)Rl).d("norm_T_in_memory", Tmem.norm()).d("norm_T_restored", Tre.norm()).d("norm_T_mixed", Tmix.norm())
                          .d("rel_diff_polarisation", (q1.getpolarization() - p1.getpolarization()).norm() / p1.getpolarization().norm()).d("rel_diff_polarisation2", (q2.getpolarization() - p2.getpolarization()).norm() / p2.getpolarization().norm()).d("diff_T_restored", (Tre - Tmem).norm()).d("diff_T_mixed", (Tmix - Tmem).norm()).d("damping_scale_original", p1.getSqrtInvEigenDamp()).d("damping_scale_restored", q1.getSqrtInvEigenDamp()));
        p1 = q1;
        p2 = q2;  // the clauses below are judged on the restored sites
      }
      Eigen::Matrix3d T = eet.FillTholeInteraction(p1, p2), Tsw = eet.FillTholeInteraction(p2, p1);
      LD R3 = Rl * Rl * Rl;
      LD au3 = (LD)a * R3 / sqrtl((LD)amax1 * (LD)amax2);  // damping argument from the INPUTS (largest principal polarisabilities)
      auto TW = [&]() {
        J w;
        w.vec("pos1", std::vector<double>{p.A.pos.x(), p.A.pos.y(), p.A.pos.z()}).vec("pos2", std::vector<double>{p.B.pos.x(), p.B.pos.y(), p.B.pos.z()}).d("expdamping", a).d("alpha_max1", amax1).d("alpha_max2", amax2).d("a_u3", (double)au3)
            .vec("T_rowmajor", std::vector<double>{T(0, 0), T(0, 1), T(0, 2), T(1, 0), T(1, 1), T(1, 2), T(2, 0), T(2, 1), T(2, 2)});
        return w;
      };
      R.eval("thole");
      LD tn = (LD)T.norm();
      if ((T - T.transpose()).norm() > 4 * EPS * (double)tn || (T - Tsw).norm() > 16 * EPS * (double)(tn + 1 / R3) * (1 + (p.A.pos.norm() + p.B.pos.norm()) / (double)Rl))
        R.violation("thole/not-symmetric", "damped dipole-dipole tensor is not symmetric (T != T^T or T(1,2) != T(2,1))", TW());
      V3 a3 = (1 / Rl) * (ldpos(p.B) - ldpos(p.A));
      Eigen::Matrix3d T0;
      for (int i = 0; i < 3; ++i)
        for (int j = 0; j < 3; ++j) {
          LD ai = i == 0 ? a3.x : (i == 1 ? a3.y : a3.z), aj = j == 0 ? a3.x : (j == 1 ? a3.y : a3.z);
          T0(i, j) = (double)(((i == j) - 3 * ai * aj) / R3);
        }
      LD poscond = 1 + (LD)(p.A.pos.norm() + p.B.pos.norm()) / Rl;
      if (au3 >= 45) {  // undamped limit (also: every pair at 100 bohr with alpha <= 100)
        R.counter("thole_undamped_limit_cases");
        if (fabsl((LD)T.trace()) * R3 > 32.0L * EPS * poscond)
          R.violation("thole/trace-in-undamped-limit", "tensor is not traceless in the undamped limit", TW().d("trace_times_R3", (double)((LD)T.trace() * R3)));
        if ((LD)(T - T0).norm() * R3 > 64.0L * EPS * poscond)
          R.violation("thole/undamped-limit", "tensor does not tend to the undamped dipole-dipole tensor at large separation", TW().d("deviation_times_R3", (double)((LD)(T - T0).norm() * R3)));
      } else if (au3 > 1e-3 && au3 < 35) {
        // supplementary: an interaction tensor is the gradient of a radial field, T_ab = d_a (l3(R) R_b / R^3),
        // hence l5 = l3 - R l3'(R)/3 with l3, l5 read off the code's own tensor (no damping formula assumed)
        R.counter("thole_damped_cases");
        auto l3of = [&](LD fac, LD *l5) {
          PolarSite q2 = p2;
          Eigen::Vector3d np = p.A.pos + (p.B.pos - p.A.pos) * (double)fac;
          q2.setPos(np);
          Eigen::Matrix3d Tt = eet.FillTholeInteraction(p1, q2);
          LD Rn = (LD)(np - p.A.pos).norm();
          Eigen::Vector3d ad = (np - p.A.pos).normalized();
          Eigen::Vector3d e = ad.unitOrthogonal();
          LD perp = (LD)(e.transpose() * Tt * e), par = (LD)(ad.transpose() * Tt * ad);
          LD l3 = perp * Rn * Rn * Rn;
          if (l5) *l5 = (l3 - par * Rn * Rn * Rn) / 3;
          return l3;
        };
        LD l5 = 0, l3 = l3of(1.0L, &l5);
        LD hstep = 1e-4L;
        LD d3 = (l3of(1 + hstep, nullptr) - l3of(1 - hstep, nullptr)) / (2 * hstep);  // R l3'(R)
        LD want5 = l3 - d3 / 3;
        if (fabsl(l5 - want5) > 2e-6L * (1 + poscond * 1e-3L))
          R.violation("thole/not-a-gradient-tensor", "the longitudinal damping factor is not l3 - R l3'/3: the tensor is not the gradient of a radial field", TW().d("lambda3", (double)l3).d("lambda5", (double)l5).d("lambda5_expected", (double)want5));
      } else R.counter("thole_not_judged_band");
    }
    // DipoleDipoleInteraction operator: symmetric, multiply() consistent with operator()(i,j)
    if (it % 25 == 0) {
      std::vector<PolarSegment> segs;
      for (int s = 0; s < 2; ++s) {
        PolarSegment ps("p", s);
        long ns = r.range(1, 3);
        for (long k = 0; k < ns; ++k) ps.push_back(PolarSite(k, r.pick(ELEMENTS), origin + Eigen::Vector3d(10.0 * s + r.uni(0, 3), r.uni(0, 3) + 4 * k, r.uni(0, 3))));
        segs.push_back(ps);
      }
      DipoleDipoleInteraction op(ee, segs);
      Index N = op.rows();
      Eigen::MatrixXd D(N, N);
      for (Index i = 0; i < N; ++i)
        for (Index j = 0; j < N; ++j) D(i, j) = op(i, j);
      Eigen::VectorXd v = Eigen::VectorXd::NullaryExpr(N, [&](Index) { return r.normal(); });
      Eigen::VectorXd y = op * v;
      R.eval("ddi_operator");
      if ((D - D.transpose()).norm() > 1e-13 * D.norm() || (y - D * v).norm() > 1e-12 * D.norm() * v.norm())
        R.violation("ddi/operator-inconsistent", "DipoleDipoleInteraction is not symmetric or multiply() disagrees with its elements", J().i("size", N).d("asymmetry", (D - D.transpose()).norm()).d("multiply_error", (y - D * v).norm()));
    }
    // non-trivial: a rank >= 1 site is involved (off-diagonal blocks of the interaction tensor are exercised)
    if (ra + rb >= 1) {
      uint64_t h = 97 + ra * 3 + rb;
      for (int k = 0; k < 9; ++k) { h = vfh::hdouble(h, p.A.Q[k]); h = vfh::hdouble(h, p.B.Q[k]); }
      h = vfh::hdouble(h, p.B.pos.x());
      R.nontrivial(h);
    }
  }
  R.counter("worst_cluster_error_over_scale_x1e12_sum_over_shards", (long long)((double)worst_cluster * 1e12));
  R.counter("worst_symmetry_error_over_scale_x1e18_sum_over_shards", (long long)((double)worst_sym * 1e18));
  R.counter("worst_rotation_error_over_scale_x1e18_sum_over_shards", (long long)((double)worst_rot * 1e18));
  R.summary();
  return 0;
}
