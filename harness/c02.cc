// C02 monitor: minimum-image convention (DESIGN.md §5 C02).
// Real code: Topology::setBox / BCShortestConnection / getDist / BoxVolume /
// ShortestBoxSize / getBoxType. Oracle: long double brute force.
#include "vfh.h"
#include <memory>
#include <votca/csg/topology.h>

using namespace votca::csg;
using vfh::J;
typedef long double LD;
struct V3 { LD x, y, z; };
static V3 operator+(V3 a, V3 b) { return {a.x + b.x, a.y + b.y, a.z + b.z}; }
static V3 operator-(V3 a, V3 b) { return {a.x - b.x, a.y - b.y, a.z - b.z}; }
static V3 operator*(LD s, V3 a) { return {s * a.x, s * a.y, s * a.z}; }
static LD dot(V3 a, V3 b) { return a.x * b.x + a.y * b.y + a.z * b.z; }
static V3 cross(V3 a, V3 b) { return {a.y * b.z - a.z * b.y, a.z * b.x - a.x * b.z, a.x * b.y - a.y * b.x}; }
static LD norm(V3 a) { return sqrtl(dot(a, a)); }
static V3 ld(const Eigen::Vector3d &v) { return {v.x(), v.y(), v.z()}; }

struct Box {
  Eigen::Matrix3d m;
  int kind;  // 0 open 1 ortho 2 triclinic
  V3 a, b, c;
  LD vol, hmin;
  void derive() {
    a = ld(m.col(0)); b = ld(m.col(1)); c = ld(m.col(2));
    vol = fabsl(dot(a, cross(b, c)));
    if (kind != 0) {
      LD ha = vol / norm(cross(b, c)), hb = vol / norm(cross(c, a)), hc = vol / norm(cross(a, b));
      hmin = std::min(ha, std::min(hb, hc));
    } else hmin = 0;
  }
  // fractional coordinates (box is upper triangular in column form: a=(ax,0,0), b=(bx,by,0), c=(cx,cy,cz))
  V3 frac(V3 d) const {
    LD fz = d.z / c.z;
    LD fy = (d.y - fz * c.y) / b.y;
    LD fx = (d.x - fy * b.x - fz * c.x) / a.x;
    return {fx, fy, fz};
  }
  V3 cart(V3 f) const { return f.x * a + f.y * b + f.z * c; }
};

static Box gen_box(vfh::Rng &r, int kind) {
  Box B;
  B.kind = kind;
  B.m.setZero();
  if (kind == 0) { B.derive(); return B; }
  double ax = r.logu(0.5, 50), by = r.logu(0.5, 50), cz = r.logu(0.5, 50);
  if (r.coin(0.15)) {  // degenerate aspect ratios up to 1:20
    double base = r.logu(0.5, 2.5);
    ax = base; by = base * r.uni(1, 20); cz = base * r.uni(1, 20);
    if (r.coin()) std::swap(ax, cz);
  }
  B.m(0, 0) = ax; B.m(1, 1) = by; B.m(2, 2) = cz;
  if (kind == 2) {
    auto tilt = [&](double lim) {
      int c = (int)r.range(0, 11);
      if (c == 0) return 0.5 * lim;  // boundary values of the reduction conditions
      if (c == 1) return -0.5 * lim;
      if (c == 2 || c == 3) return 0.0;  // sparse tilt patterns (only one or two of the three tilts non-zero)
      if (c == 4 || c == 5) return (r.coin() ? 1 : -1) * r.logu(1e-14, 1e-3) * lim;  // weakly tilted cells
      return r.uni(-0.5, 0.5) * lim;
    };
    B.m(0, 1) = tilt(ax);  // b_x
    B.m(0, 2) = tilt(ax);  // c_x
    B.m(1, 2) = tilt(by);  // c_y
    if (B.m(0, 1) == 0 && B.m(0, 2) == 0 && B.m(1, 2) == 0) B.m(0, 1) = 0.25 * ax;
  }
  B.derive();
  return B;
}

// a box related to the previous one: the same cell sheared at constant volume (same diagonal, new tilts), the diagonal
// permuted, or edges scaled by powers of two at constant volume - consecutive boxes then agree in volume (bit for bit)
// or in single elements although their heights differ, as in a sheared or constant-volume trajectory
static Box related_box(vfh::Rng &r, const Box &P, int kind) {
  Box B;
  B.kind = kind;
  B.m.setZero();
  double ax = P.m(0, 0), by = P.m(1, 1), cz = P.m(2, 2);
  int how = (int)r.range(0, 3);
  if (how == 1) { double t = ax; ax = by; by = cz; cz = t; }
  else if (how == 2) { ax *= 2; by *= 0.5; }
  else if (how == 3) { cz *= 4; ax *= 0.5; by *= 0.5; }
  B.m(0, 0) = ax; B.m(1, 1) = by; B.m(2, 2) = cz;
  if (kind == 2) {
    auto tilt = [&](double lim) { int c = (int)r.range(0, 5); return c == 0 ? 0.5 * lim : c == 1 ? 0.0 : r.uni(-0.5, 0.5) * lim; };
    B.m(0, 1) = tilt(ax); B.m(0, 2) = tilt(ax); B.m(1, 2) = tilt(by);
    if (B.m(0, 1) == 0 && B.m(0, 2) == 0 && B.m(1, 2) == 0) B.m(1, 2) = 0.4 * by;
  }
  B.derive();
  return B;
}

static Eigen::Vector3d gen_point(vfh::Rng &r, const Box &B, long &maximg) {
  if (B.kind == 0) {
    double s = r.logu(0.1, 1e4);
    return Eigen::Vector3d(r.uni(-s, s), r.uni(-s, s), r.uni(-s, s));
  }
  Eigen::Vector3d f;
  for (int k = 0; k < 3; ++k) {
    int c = (int)r.range(0, 9);
    if (c == 0) f[k] = 0.0;
    else if (c == 1) f[k] = 0.5;
    else if (c == 2) f[k] = 1.0;
    else f[k] = r.uni();
  }
  int mode = (int)r.range(0, 5);
  long R = mode <= 1 ? 0 : (mode == 2 ? 1 : (mode == 3 ? 3 : (mode == 4 ? 100 : 10000)));
  for (int k = 0; k < 3; ++k) {
    long n = R ? r.range(-R, R) : 0;
    f[k] += (double)n;
    maximg = std::max(maximg, std::labs(n));
  }
  return B.m * f;
}

struct BF { LD dmin; V3 vmin; int nties; };
static BF brute(const Box &B, V3 d, LD band) {
  V3 f = B.frac(d);
  f = {f.x - roundl(f.x), f.y - roundl(f.y), f.z - roundl(f.z)};
  V3 d0 = B.cart(f);
  BF r{1e300L, d0, 0};
  std::vector<LD> all;
  for (int i = -2; i <= 2; ++i)
    for (int j = -2; j <= 2; ++j)
      for (int k = -2; k <= 2; ++k) {
        V3 v = d0 + (LD)i * B.a + (LD)j * B.b + (LD)k * B.c;
        LD n = norm(v);
        all.push_back(n);
        if (n < r.dmin) { r.dmin = n; r.vmin = v; }
      }
  for (LD n : all) if (n <= r.dmin + band) r.nties++;
  return r;
}

static std::string boxjson(const Box &B) {
  std::vector<double> v;
  for (int i = 0; i < 3; ++i) for (int j = 0; j < 3; ++j) v.push_back(B.m(i, j));
  J j; j.i("kind", B.kind).vec("rowmajor", v);
  return j.str();
}
static std::vector<double> vv(const Eigen::Vector3d &a) { return {a.x(), a.y(), a.z()}; }

int main(int argc, char **argv) {
  vfh::Args A(argc, argv);
  long seed = A.num("seed", 1), shard = A.num("shard", 0);
  long nboxes = A.num("boxes", 200), npairs = A.num("pairs", 500);
  vfh::Rng rng(seed * 7919 + shard * 104729 + 11);
  vfh::Reporter R;
  const double EPS = 2.220446049250313e-16;

  for (long ib = 0; ib < nboxes; ++ib) {
    int kind = (ib % 10 == 0) ? 0 : (ib % 2 ? 1 : 2);
    static Box prev;
    static bool have_prev = false;
    bool rel = have_prev && kind != 0 && rng.coin(0.3);
    Box B = rel ? related_box(rng, prev, kind) : gen_box(rng, kind);
    if (rel) R.counter("boxes_related_to_the_previous_box_same_volume");
    if (kind != 0) { prev = B; have_prev = true; }
    int explicit_mode = (int)rng.range(0, 3);  // 0 auto; 1 explicit same; 2 diagonal box as explicit triclinic; 3 auto
    // histories: half of the boxes are set on a Topology that already carried other boxes (as a trajectory reader does
    // frame after frame: orthorhombic -> triclinic -> open -> ...), the others on a fresh object
    static std::unique_ptr<Topology> persistent;
    if (!persistent || rng.coin(0.05)) persistent = std::make_unique<Topology>();
    Topology fresh;
    bool reuse = rng.coin(0.5);
    Topology &top = reuse ? *persistent : fresh;
    R.counter(reuse ? "boxes_set_on_reused_topology" : "boxes_set_on_fresh_topology");
    Box Bcode = B;
    // an open box may be chosen explicitly for a topology that carries a cell all the same (Topology::setBox(box,
    // typeOpen); the DL_POLY reader does it for imcon=0): the connection is still the plain difference
    bool open_with_cell = kind == 0 && rng.coin(0.5);
    if (open_with_cell) {
      Box C = gen_box(rng, rng.coin() ? 1 : 2);
      if (rng.coin(0.3)) C.m(2, 2) = 0;  // slab-like cell
      B.m = C.m;
      top.setBox(B.m, BoundaryCondition::typeOpen);
      R.counter("open_boxes_chosen_explicitly_for_a_nonzero_cell");
    } else if (explicit_mode == 1) {
      top.setBox(B.m, kind == 0 ? BoundaryCondition::typeOpen : kind == 1 ? BoundaryCondition::typeOrthorhombic : BoundaryCondition::typeTriclinic);
    } else if (explicit_mode == 2 && kind == 1) {
      top.setBox(B.m, BoundaryCondition::typeTriclinic);
    } else {
      top.setBox(B.m);
    }
    J bj; bj.raw("box", boxjson(B)).i("explicit_mode", explicit_mode).b("reused_topology", reuse);
    // (g) type detection
    {
      R.eval("boxtype");
      auto t = top.getBoxType();
      int want = (explicit_mode == 2 && kind == 1) ? 2 : kind;
      int got = t == BoundaryCondition::typeOpen ? 0 : t == BoundaryCondition::typeOrthorhombic ? 1 : t == BoundaryCondition::typeTriclinic ? 2 : -1;
      if (got != want) R.violation("boxtype/detection", "box type differs from zero/diagonal/general rule", J().raw("box", boxjson(B)).i("got", got).i("want", want));
    }
    // (f) volume and shortest height
    if (kind != 0) {
      R.eval("volume_height");
      double v = top.BoxVolume(), h = top.ShortestBoxSize();
      if (!vfh::close(v, (double)B.vol, 0, 1e-12))
        R.violation("volume", "BoxVolume != |det B|", J().raw("box", boxjson(B)).d("got", v).d("want", (double)B.vol));
      if (!vfh::close(h, (double)B.hmin, 0, 1e-12))
        R.violation("height", "ShortestBoxSize != min_k V/|b_i x b_j|", J().raw("box", boxjson(B)).d("got", h).d("want", (double)B.hmin));
    } else {
      R.eval("volume_height");
      double v = top.BoxVolume();
      // (an explicitly open box keeps the cell it was given: its volume is that of the cell, not judged here)
      if (!open_with_cell && v != 0.0) R.violation("volume/open", "open box volume not 0", J().d("got", v));
    }
    LD minedge = kind ? std::min((LD)B.m(0, 0), std::min((LD)B.m(1, 1), (LD)B.m(2, 2))) : 0;
    LD bmax = B.m.cwiseAbs().maxCoeff();

    for (long ip = 0; ip < npairs; ++ip) {
      long maximg = 0;
      Eigen::Vector3d ri = gen_point(rng, B, maximg), rj = gen_point(rng, B, maximg);
      if (rng.coin(kind == 2 ? 0.5 : 0.1)) {  // close pairs (true distance below half the height), any image
        Eigen::Vector3d dir(rng.normal(), rng.normal(), rng.normal());
        dir.normalize();
        rj = ri + dir * rng.uni(0, kind ? 0.55 * (double)B.hmin : 1.0);
        if (kind && rng.coin(0.7)) {
          long Rr = rng.coin(0.2) ? 10000 : 3;
          Eigen::Vector3d nn((double)rng.range(-Rr, Rr), (double)rng.range(-Rr, Rr), (double)rng.range(-Rr, Rr));
          rj += B.m * nn;
          maximg = std::max(maximg, Rr);
        }
      }
      Eigen::Vector3d c = top.BCShortestConnection(ri, rj);
      V3 d = ld(rj) - ld(ri), cc = ld(c);
      LD M = std::max((LD)ri.cwiseAbs().maxCoeff(), (LD)rj.cwiseAbs().maxCoeff()) + bmax;
      const char *fam = kind == 0 ? "open" : kind == 1 ? "ortho" : "triclinic";
      R.eval(fam);
      auto wit = [&](const Eigen::Vector3d &got) {
        J w; w.raw("box", boxjson(B)).i("explicit_mode", explicit_mode).b("reused_topology", reuse).vec("ri", vv(ri)).vec("rj", vv(rj)).vec("got", vv(got));
        return w;
      };
      if (kind == 0) {
        Eigen::Vector3d plain = rj - ri;
        if (!(c == plain)) R.violation("open/plain-difference", "open box result is not the plain difference", wit(c));
        if (R.want_sample() && ip == 0) R.sample(wit(c));
        // antisymmetry, bit exact
        Eigen::Vector3d cji = top.BCShortestConnection(rj, ri);
        if (!(cji == -c)) R.violation("open/antisymmetry", "c(j,i) != -c(i,j)", wit(cji));
        R.nontrivial(vfh::hdouble(vfh::hdouble(vfh::hdouble(17, ri.x()), rj.y()), rj.z()));
        continue;
      }
      LD tol = 64 * EPS * M;                       // absolute, in nm
      LD ftol = 1e3 * EPS * (M / minedge + 1) * (bmax / minedge);  // fractional
      LD band = 1e-9L * (M + bmax);
      // (a) lattice congruence
      V3 n = B.frac(d - cc);
      LD dev = std::max(fabsl(n.x - roundl(n.x)), std::max(fabsl(n.y - roundl(n.y)), fabsl(n.z - roundl(n.z))));
      if (!(dev <= ftol) || !std::isfinite((double)dev)) {
        R.violation(std::string(fam) + "/congruence", "result differs from the plain difference by a non-lattice vector", wit(c).d("dev", (double)dev));
        continue;
      }
      // (b) shortest image
      BF bf = brute(B, d, band);
      bool must_be_min = (kind == 1) || (bf.dmin < B.hmin / 2 - band);
      LD cn = norm(cc);
      bool nontriv = norm(d) > bf.dmin + band;
      if (must_be_min) {
        R.counter(std::string(fam) + "_judged_shortest");
        if (cn > bf.dmin + band + tol)
          R.violation(std::string(fam) + "/not-shortest", "result is longer than the brute-force minimum image", wit(c).d("len", (double)cn).d("bf_min", (double)bf.dmin).d("hmin", (double)B.hmin));
        else if (bf.nties == 1) {
          V3 e = cc - bf.vmin;
          if (norm(e) > band + tol) R.violation(std::string(fam) + "/not-shortest", "result is not the unique minimum image", wit(c));
        } else R.counter("tie_cases");
      } else R.counter("triclinic_beyond_half_height_not_judged_shortest");
      if (cn < bf.dmin - band - tol)
        R.violation(std::string(fam) + "/shorter-than-any-image", "result shorter than every periodic image (not a lattice image)", wit(c).d("len", (double)cn).d("bf_min", (double)bf.dmin));
      if (nontriv) {
        uint64_t h = 29;
        for (int k = 0; k < 3; ++k) { h = vfh::hdouble(h, ri[k]); h = vfh::hdouble(h, rj[k]); }
        h = vfh::hdouble(h, B.m(0, 0)); h = vfh::hdouble(h, B.m(1, 2));
        R.nontrivial(h);
      }
      if (maximg >= 100) R.counter("pairs_100plus_images_away");
      if (R.want_sample() && nontriv && ip % 97 == 3) R.sample(wit(c).d("bf_min", (double)bf.dmin));

      // stability probe, used to classify don't-care cases near decision surfaces
      auto unstable = [&](LD Mx) {
        double amp = (double)(1e3 * EPS * Mx + 1e-9L * minedge);
        for (int a = -1; a <= 1; ++a)
          for (int b = -1; b <= 1; ++b)
            for (int cdir = -1; cdir <= 1; ++cdir) {
              if (!a && !b && !cdir) continue;
              Eigen::Vector3d p = rj + amp * Eigen::Vector3d(a, b, cdir);
              Eigen::Vector3d ck = top.BCShortestConnection(ri, p);
              if ((ck - c).norm() > 0.25 * (double)minedge) return true;
            }
        return false;
      };
      // (c) antisymmetry
      {
        Eigen::Vector3d cji = top.BCShortestConnection(rj, ri);
        if ((cji + c).norm() > (double)tol) {
          if (bf.nties > 1 || unstable(M)) R.counter("dontcare_antisymmetry_at_tie");
          else R.violation(std::string(fam) + "/antisymmetry", "c(j,i) != -c(i,j)", wit(cji));
        }
      }
      // (d) invariance under lattice translations of either point
      {
        Eigen::Vector3d nn((double)rng.range(-3, 3), (double)rng.range(-3, 3), (double)rng.range(-3, 3));
        if (rng.coin(0.3)) nn = Eigen::Vector3d((double)rng.range(-10000, 10000), (double)rng.range(-10000, 10000), (double)rng.range(-10000, 10000));
        Eigen::Vector3d sh = B.m * nn;
        bool movei = rng.coin();
        Eigen::Vector3d ri2 = movei ? Eigen::Vector3d(ri + sh) : ri, rj2 = movei ? rj : Eigen::Vector3d(rj + sh);
        Eigen::Vector3d c2 = top.BCShortestConnection(ri2, rj2);
        LD M2 = std::max((LD)ri2.cwiseAbs().maxCoeff(), (LD)rj2.cwiseAbs().maxCoeff()) + bmax;
        R.eval("shift_invariance");
        if ((c2 - c).norm() > (double)(64 * EPS * (M + M2) * (1 + bmax / minedge))) {
          if (bf.nties > 1 || unstable(std::max(M, M2))) R.counter("dontcare_shift_near_decision_surface");
          else R.violation(std::string(fam) + "/shift-invariance", "result changes when a point is moved by a whole box vector", wit(c).vec("shift_n", vv(nn)).b("moved_i", movei).vec("got_shifted", vv(c2)));
        }
      }
      // getDist goes through the same code with bead positions
      if (ip % 50 == 0) {
        Topology t2;
        t2.setBox(B.m, top.getBoxType());
        t2.CreateBead(Bead::spherical, "a", "A", 1, 1.0, 0.0)->setPos(ri);
        t2.CreateBead(Bead::spherical, "b", "A", 1, 1.0, 0.0)->setPos(rj);
        Eigen::Vector3d g = t2.getDist(0, 1);
        R.eval("getDist");
        if (!(g == c)) R.violation("getDist/differs", "getDist(i,j) != BCShortestConnection(pos_i,pos_j)", wit(g));
      }
    }
  }
  R.summary();
  return 0;
}
