// C01 monitor (library level): coarse-grained mapping (DESIGN.md §5 C01).
// Real code: CGEngine::LoadMoleculeType(generated mapping xml) ->
// CreateCGTopology -> TopologyMap::Apply() on generated atomistic Topology
// objects. Oracle: long-double recomputation with a brute-force 125-image
// search; metamorphic monitors (i) lattice displacement of non-first parents,
// (ii) rigid translation, (iii) bounding box / barycentric identity for
// non-negative weights, (iv) half-box rejection threshold.
//
// Every case (one topology + mapping, several frames) is generated from its
// own seed: replay one with  c01 --dir D --seed S --shard K --first I --n 1
#include "vfh.h"
#include <algorithm>
#include <csignal>
#include <fstream>
#include <map>
#include <memory>
#include <set>
#include <votca/csg/cgengine.h>
#include <votca/csg/topology.h>
#include <votca/csg/topologymap.h>

using namespace votca::csg;
using vfh::J;
typedef long double LD;
static const double EPS = 2.220446049250313e-16;

struct V3 { LD x, y, z; };
static V3 operator+(V3 a, V3 b) { return {a.x + b.x, a.y + b.y, a.z + b.z}; }
static V3 operator-(V3 a, V3 b) { return {a.x - b.x, a.y - b.y, a.z - b.z}; }
static V3 operator*(LD s, V3 a) { return {s * a.x, s * a.y, s * a.z}; }
static LD dot(V3 a, V3 b) { return a.x * b.x + a.y * b.y + a.z * b.z; }
static V3 cross(V3 a, V3 b) { return {a.y * b.z - a.z * b.y, a.z * b.x - a.x * b.z, a.x * b.y - a.y * b.x}; }
static LD norm(V3 a) { return sqrtl(dot(a, a)); }
static V3 ld(const Eigen::Vector3d &v) { return {v.x(), v.y(), v.z()}; }
static std::vector<double> vv(const Eigen::Vector3d &a) { return {a.x(), a.y(), a.z()}; }
static std::vector<double> vv(V3 a) { return {(double)a.x, (double)a.y, (double)a.z}; }
static LD maxabs(V3 a) { return std::max(fabsl(a.x), std::max(fabsl(a.y), fabsl(a.z))); }

struct Box {
  Eigen::Matrix3d m;
  int kind;  // 0 open 1 ortho 2 triclinic
  V3 a, b, c;
  LD vol, hmin, bmax;
  void derive() {
    a = ld(m.col(0)); b = ld(m.col(1)); c = ld(m.col(2));
    bmax = m.cwiseAbs().maxCoeff();
    vol = fabsl(dot(a, cross(b, c)));
    if (kind != 0) {
      LD ha = vol / norm(cross(b, c)), hb = vol / norm(cross(c, a)), hc = vol / norm(cross(a, b));
      hmin = std::min(ha, std::min(hb, hc));
    } else hmin = 0;
  }
  V3 frac(V3 d) const {
    LD fz = d.z / c.z;
    LD fy = (d.y - fz * c.y) / b.y;
    LD fx = (d.x - fy * b.x - fz * c.x) / a.x;
    return {fx, fy, fz};
  }
  V3 cart(V3 f) const { return f.x * a + f.y * b + f.z * c; }
  // brute-force nearest image of d (independent of the library's reduction)
  V3 nearest(V3 d, LD &dist) const {
    if (kind == 0) { dist = norm(d); return d; }
    V3 f = frac(d);
    f = {f.x - roundl(f.x), f.y - roundl(f.y), f.z - roundl(f.z)};
    V3 d0 = cart(f), best = d0;
    LD bn = 1e300L;
    for (int i = -2; i <= 2; ++i)
      for (int j = -2; j <= 2; ++j)
        for (int k = -2; k <= 2; ++k) {
          V3 v = d0 + (LD)i * a + (LD)j * b + (LD)k * c;
          LD n = norm(v);
          if (n < bn) { bn = n; best = v; }
        }
    dist = bn;
    return best;
  }
};

static Box gen_box(vfh::Rng &r, int kind) {
  Box B;
  B.kind = kind;
  B.m.setZero();
  if (kind == 0) { B.derive(); return B; }
  double ax = r.logu(0.5, 50), by = r.logu(0.5, 50), cz = r.logu(0.5, 50);
  if (r.coin(0.15)) {
    double base = r.logu(0.5, 2.5);
    ax = base; by = base * r.uni(1, 20); cz = base * r.uni(1, 20);
    if (r.coin()) std::swap(ax, cz);
  }
  if (r.coin(0.2)) { by = ax; cz = ax; }  // cubic
  B.m(0, 0) = ax; B.m(1, 1) = by; B.m(2, 2) = cz;
  if (kind == 2) {
    auto tilt = [&](double lim) {
      int c = (int)r.range(0, 9);
      if (c == 0) return 0.5 * lim;
      if (c == 1) return -0.5 * lim;
      if (c == 2) return 0.0;
      return r.uni(-0.5, 0.5) * lim;
    };
    B.m(0, 1) = tilt(ax); B.m(0, 2) = tilt(ax); B.m(1, 2) = tilt(by);
    if (B.m(0, 1) == 0 && B.m(0, 2) == 0 && B.m(1, 2) == 0) B.m(0, 1) = 0.25 * ax;
  }
  B.derive();
  return B;
}

// ------------------------------------------------------------------ case
struct BeadDef {
  std::string name, mapname;
  std::vector<int> parents;  // atom index inside the molecule; parents[0] is the first parent
  std::vector<double> w, d;  // raw (non-normalised) as written to the xml
  bool has_d = false, ellipsoid = false;
};
struct MolType {
  std::string name, cgname;
  std::vector<double> mass;
  std::vector<std::string> atype;
  std::vector<BeadDef> beads;
  std::vector<std::pair<std::string, std::vector<int>>> bonded;  // kind, cg bead indices
  std::string xml;
};
struct Case {
  std::vector<MolType> types;
  std::vector<int> molorder;  // type of each molecule
  bool hasPos, hasVel, hasF;
  std::string tag;
  // molecules of the atomistic topology that are NOT mapped: placed before mapped molecule `before` (== molorder.size():
  // at the end); atoms (and bead names) copied from type `type`; kind 0: name matches a --map-ignore pattern,
  // kind 1: no mapping definition carries this name (CreateCGTopology warns and skips it)
  struct Skip { int before, type, kind; };
  std::vector<Skip> skips;
  std::vector<int> skip_atoms;  // global atom indices of the skipped molecules (filled when the topology is built)
  std::string skip_name(const Skip &k) const { return (k.kind == 0 ? "IGN" : "UNK") + types[k.type].name; }
};

static std::string g17(double x) {
  char b[64];
  snprintf(b, sizeof b, "%.17g", x);
  return b;
}

static void gen_weights(vfh::Rng &r, const MolType &T, BeadDef &bd) {
  int np = (int)bd.parents.size();
  for (int attempt = 0;; ++attempt) {
    bd.w.assign(np, 1.0);
    int pat = (int)r.range(0, 9);
    if (attempt > 20) pat = 0;
    if (pat <= 1) { /* all ones */ }
    else if (pat <= 3) for (int i = 0; i < np; ++i) bd.w[i] = T.mass[bd.parents[i]];
    else if (pat <= 5) for (int i = 0; i < np; ++i) bd.w[i] = r.logu(1e-3, 1e3);
    else if (pat == 6) for (int i = 0; i < np; ++i) bd.w[i] = (double)r.range(0, 5);
    else if (pat == 7) for (int i = 0; i < np; ++i) bd.w[i] = r.coin(0.35) ? 0.0 : r.logu(1e-2, 1e2);
    else if (pat == 8) for (int i = 0; i < np; ++i) bd.w[i] = r.uni(-1, 2);
    else for (int i = 0; i < np; ++i) bd.w[i] = (double)r.range(1, 16);
    double s = 0, sa = 0;
    for (double x : bd.w) { s += x; sa += std::fabs(x); }
    if (sa == 0 || std::fabs(s) * 8 < sa) continue;  // non-zero sum, condition number <= 8
    break;
  }
  bd.has_d = r.coin(0.4);
  bd.d.clear();
  if (bd.has_d) {
    for (int attempt = 0;; ++attempt) {
      bd.d.assign(np, 0.0);
      bool neg = attempt < 20 && r.coin(0.15);
      for (int i = 0; i < np; ++i) {
        if (bd.w[i] == 0) continue;  // d != 0 with w == 0 is refused by the library (documented)
        if (r.coin(0.15)) continue;
        bd.d[i] = neg ? r.uni(-1, 2) : r.logu(1e-2, 1e2);
      }
      double s = 0, sa = 0;
      for (double x : bd.d) { s += x; sa += std::fabs(x); }
      if (sa == 0 || std::fabs(s) * 8 < sa) {
        if (attempt > 40) { for (int i = 0; i < np; ++i) bd.d[i] = bd.w[i] == 0 ? 0.0 : 1.0; break; }
        continue;
      }
      break;
    }
  }
}

static void gen_case(vfh::Rng &r, Case &C, vfh::Rng &q) {
  C = Case();
  int nt = (int)r.range(1, 3);
  int flags = (int)r.range(0, 15);
  // all 8 combinations; positions present twice as often
  C.hasPos = (flags & 1) || (flags & 8);
  C.hasVel = flags & 2;
  C.hasF = flags & 4;
  for (int t = 0; t < nt; ++t) {
    MolType T;
    T.name = std::string("MOL") + (char)('A' + t);
    T.cgname = std::string("CG") + (char)('A' + t);
    int na = (int)r.range(1, 12);
    for (int a = 0; a < na; ++a) {
      T.mass.push_back(r.coin(0.3) ? 1.008 : r.coin(0.5) ? 12.011 : r.logu(0.5, 200));
      T.atype.push_back(std::string("T") + (char)('a' + (int)r.range(0, 3)));
    }
    int nb = (int)r.range(1, 4);
    for (int b = 0; b < nb; ++b) {
      BeadDef bd;
      bd.name = "B" + std::to_string(b + 1);
      bd.mapname = "M" + std::to_string(b + 1);
      int np = (int)r.range(1, na);
      if (r.coin(0.3)) np = na;
      std::vector<int> idx(na);
      for (int a = 0; a < na; ++a) idx[a] = a;
      for (int a = na - 1; a > 0; --a) std::swap(idx[a], idx[(size_t)r.range(0, a)]);
      bd.parents.assign(idx.begin(), idx.begin() + np);
      if (r.coin(0.4)) std::sort(bd.parents.begin(), bd.parents.end());
      gen_weights(r, T, bd);
      bool anypos = false;
      for (double x : bd.w) if (x > 0) anypos = true;
      double s = 0; for (double x : bd.w) s += x;
      // ellipsoidal beads need three parents (orientation from parents 0,1,2)
      bd.ellipsoid = np >= 3 && anypos && s > 0 && r.coin(0.25);
      T.beads.push_back(bd);
    }
    // several beads sharing one <map> (same number of parents): weights and d come from the earlier bead
    for (int b = 1; b < nb; ++b) {
      if (!q.coin(0.35)) continue;
      for (int b0 = 0; b0 < b; ++b0) {
        if (T.beads[b0].parents.size() != T.beads[b].parents.size()) continue;
        BeadDef &bd = T.beads[b];
        bd.mapname = T.beads[b0].mapname; bd.w = T.beads[b0].w; bd.d = T.beads[b0].d; bd.has_d = T.beads[b0].has_d;
        bool anypos = false; double sw = 0;
        for (double x : bd.w) { if (x > 0) anypos = true; sw += x; }
        if (!(anypos && sw > 0)) bd.ellipsoid = false;
        break;
      }
    }
    if (nb >= 2 && r.coin(0.6)) {
      int k = 0;
      for (int b = 0; b + 1 < nb; ++b) T.bonded.push_back({"bond", {b, b + 1}}), ++k;
      if (nb >= 3 && r.coin()) T.bonded.push_back({"angle", {0, 1, 2}});
      if (nb >= 4 && r.coin()) T.bonded.push_back({"dihedral", {0, 1, 2, 3}});
    }
    // xml
    std::ostringstream x;
    x << "<cg_molecule>\n  <name>" << T.cgname << "</name>\n  <ident>" << T.name << "</ident>\n  <topology>\n    <cg_beads>\n";
    for (auto &bd : T.beads) {
      x << "      <cg_bead>\n        <name>" << bd.name << "</name>\n        <type>C" << bd.name << "</type>\n";
      if (bd.ellipsoid) x << "        <symmetry>3</symmetry>\n";
      else if (r.coin()) x << "        <symmetry>1</symmetry>\n";
      x << "        <mapping>" << bd.mapname << "</mapping>\n        <beads>";
      for (int p : bd.parents) x << " 1:" << T.name << ":A" << (p + 1);
      x << " </beads>\n      </cg_bead>\n";
    }
    x << "    </cg_beads>\n";
    if (!T.bonded.empty()) {
      x << "    <cg_bonded>\n";
      int k = 0;
      for (auto &bn : T.bonded) {
        x << "      <" << bn.first << ">\n        <name>" << bn.first << (++k) << "</name>\n        <beads>";
        for (int b : bn.second) x << " " << T.beads[b].name;
        x << " </beads>\n      </" << bn.first << ">\n";
      }
      x << "    </cg_bonded>\n";
    }
    x << "  </topology>\n  <maps>\n";
    std::set<std::string> written;
    for (auto &bd : T.beads) {
      if (!written.insert(bd.mapname).second) continue;  // shared map: written once
      x << "    <map>\n      <name>" << bd.mapname << "</name>\n      <weights>";
      for (double w : bd.w) x << " " << g17(w);
      x << " </weights>\n";
      if (bd.has_d) {
        x << "      <d>";
        for (double d : bd.d) x << " " << g17(d);
        x << " </d>\n";
      }
      x << "    </map>\n";
    }
    x << "  </maps>\n</cg_molecule>\n";
    T.xml = x.str();
    C.types.push_back(T);
  }
  int nm = (int)r.range(1, 8);
  for (int m = 0; m < nm; ++m) C.molorder.push_back((int)r.range(0, nt - 1));
  if (r.coin()) std::sort(C.molorder.begin(), C.molorder.end());
}

struct Frame {
  Box B;
  int box_explicit;  // 0 auto, 1 explicit type
  std::vector<Eigen::Vector3d> pos, vel, f;
  LD M, band;
  std::string mode;
};

struct Silence {
  std::streambuf *old;
  std::ostringstream sink;
  Silence() { old = std::cout.rdbuf(sink.rdbuf()); }
  ~Silence() { std::cout.rdbuf(old); }
};

struct BeadRef { int mol, type, bead, atom0; };  // atom0: global index of the molecule's first atom

struct Expect {
  V3 pos{0, 0, 0}, vel{0, 0, 0}, f{0, 0, 0};
  LD mass = 0, dmax = 0, kw = 1, kd = 1, fscale = 0, vmax = 0, msum = 0;
  bool unwrapped = false, nonneg = true;
  std::vector<V3> up;   // unwrapped parents
  std::vector<LD> wn;   // normalised weights
  int np = 0;
};

static void oracle_bead(const Case &C, const Frame &F, const BeadRef &br, Expect &E) {
  const BeadDef &bd = C.types[br.type].beads[br.bead];
  const MolType &T = C.types[br.type];
  int np = (int)bd.parents.size();
  E = Expect();
  E.np = np;
  LD sw = 0, swa = 0, sd = 0, sda = 0;
  for (double w : bd.w) { sw += w; swa += fabsl((LD)w); if (w < 0) E.nonneg = false; }
  E.kw = swa / fabsl(sw);
  if (bd.has_d) { for (double d : bd.d) { sd += d; sda += fabsl((LD)d); } E.kd = sda / fabsl(sd); }
  E.wn.resize(np);
  for (int i = 0; i < np; ++i) E.wn[i] = (LD)bd.w[i] / sw;
  for (int i = 0; i < np; ++i) { E.mass += (LD)T.mass[bd.parents[i]]; E.msum += fabsl((LD)T.mass[bd.parents[i]]); }
  if (C.hasPos) {
    V3 r0 = ld(F.pos[br.atom0 + bd.parents[0]]);
    E.up.resize(np);
    for (int i = 0; i < np; ++i) {
      V3 ri = ld(F.pos[br.atom0 + bd.parents[i]]);
      LD dist;
      V3 u = F.B.nearest(ri - r0, dist);
      E.dmax = std::max(E.dmax, dist);
      if (norm(u - (ri - r0)) > F.band) E.unwrapped = true;
      E.up[i] = r0 + u;
      E.pos = E.pos + E.wn[i] * E.up[i];
    }
  }
  if (C.hasVel)
    for (int i = 0; i < np; ++i) {
      V3 v = ld(F.vel[br.atom0 + bd.parents[i]]);
      E.vel = E.vel + E.wn[i] * v;
      E.vmax = std::max(E.vmax, maxabs(v));
    }
  if (C.hasF)
    for (int i = 0; i < np; ++i) {
      // (d_i/sum d)/(w_i/sum w); 0 for a parent with w_i = 0 (then d_i = 0 too); no d: d := w
      LD fw = 0;
      if (bd.w[i] != 0) fw = bd.has_d ? ((LD)bd.d[i] / sd) / E.wn[i] : (LD)1;
      V3 ff = ld(F.f[br.atom0 + bd.parents[i]]);
      E.f = E.f + fw * ff;
      E.fscale += fabsl(fw) * maxabs(ff);
    }
}

static J case_json(const Case &C, const Frame *F, const std::vector<BeadRef> &refs) {
  J j;
  j.s("replay", C.tag).b("has_pos", C.hasPos).b("has_vel", C.hasVel).b("has_force", C.hasF);
  std::string mx = "[";
  for (size_t t = 0; t < C.types.size(); ++t) {
    J m;
    m.s("molecule", C.types[t].name).vec("atom_masses", C.types[t].mass).s("mapping_xml", C.types[t].xml);
    mx += (t ? "," : "") + m.str();
  }
  j.raw("types", mx + "]");
  std::vector<std::string> mo;
  std::string ms = "[";
  for (size_t m = 0; m < C.molorder.size(); ++m) ms += (m ? ",\"" : "\"") + C.types[C.molorder[m]].name + "\"";
  j.raw("molecules_in_order", ms + "]");
  if (!C.skips.empty()) {
    std::string sk = "[";
    for (size_t i = 0; i < C.skips.size(); ++i)
      sk += std::string(i ? "," : "") + "{\"before_mapped_molecule\":" + std::to_string(C.skips[i].before) + ",\"name\":\"" + C.skip_name(C.skips[i]) + "\",\"atoms_like\":\"" + C.types[C.skips[i].type].name + "\"}";
    j.raw("unmapped_molecules", sk + "]").s("map_ignore", "IGN*");
  }
  (void)refs;
  if (F) {
    std::vector<double> bm;
    for (int i = 0; i < 3; ++i) for (int k = 0; k < 3; ++k) bm.push_back(F->B.m(i, k));
    j.i("box_kind", F->B.kind).vec("box_rowmajor", bm).i("box_explicit_type", F->box_explicit).d("hmin", (double)F->B.hmin).s("placement", F->mode);
    auto arr = [](const std::vector<Eigen::Vector3d> &v) {
      std::ostringstream o;
      o << std::setprecision(17) << "[";
      for (size_t i = 0; i < v.size(); ++i) o << (i ? "," : "") << "[" << v[i].x() << "," << v[i].y() << "," << v[i].z() << "]";
      o << "]";
      return o.str();
    };
    if (C.hasPos) j.raw("pos", arr(F->pos));
    if (C.hasVel) j.raw("vel", arr(F->vel));
    if (C.hasF) j.raw("force", arr(F->f));
  }
  return j;
}

static void gen_frame(vfh::Rng &r, const Case &C, const std::vector<int> &atom0, int natoms, Frame &F, std::string &kindtag) {
  int bk = (int)r.range(0, 19);
  F.B = gen_box(r, bk < 2 ? 0 : (bk < 11 ? 1 : 2));
  const Box &B = F.B;
  F.box_explicit = r.coin(0.3) ? 1 : 0;
  int im = (int)r.range(0, 19);
  long Rimg = im < 6 ? 0 : im < 11 ? 1 : im < 15 ? 3 : im < 17 ? 100 : 10000;
  if (B.kind == 0) Rimg = 0;
  LD Mmax = (LD)(Rimg + 3) * 3 * B.bmax + 10;
  LD band = 1e-9L * Mmax;
  F.pos.assign(natoms, Eigen::Vector3d::Zero());
  F.vel.assign(natoms, Eigen::Vector3d::Zero());
  F.f.assign(natoms, Eigen::Vector3d::Zero());
  double vs = r.logu(1e-2, 1e2), fs = r.logu(1e-1, 1e4);
  for (int i = 0; i < natoms; ++i) {
    F.vel[i] = vs * Eigen::Vector3d(r.normal(), r.normal(), r.normal());
    F.f[i] = fs * Eigen::Vector3d(r.normal(), r.normal(), r.normal());
  }
  int fk = (int)r.range(0, 19);
  // 0..11 valid (compact), 12..13 chain, 14..16 oversize, 17..19 threshold probe
  kindtag = fk < 12 ? "compact" : fk < 14 ? "chain" : fk < 17 ? "oversize" : "threshold";
  if (B.kind == 0 && fk >= 14) kindtag = "compact";
  LD hmin = B.kind ? B.hmin : (LD)20;
  LD rho_max = 0.25L * hmin - 2 * band;
  auto unit = [&]() {
    Eigen::Vector3d d(r.normal(), r.normal(), r.normal());
    if (d.norm() == 0) d = Eigen::Vector3d(0, 0, 1);
    d.normalize();
    return d;
  };
  for (size_t m = 0; m < C.molorder.size(); ++m) {
    const MolType &T = C.types[C.molorder[m]];
    int na = (int)T.mass.size();
    Eigen::Vector3d centre;
    if (B.kind == 0) centre = Eigen::Vector3d(r.uni(-50, 50), r.uni(-50, 50), r.uni(-50, 50));
    else {
      Eigen::Vector3d fc;
      for (int k = 0; k < 3; ++k) {
        int c = (int)r.range(0, 7);
        fc[k] = c == 0 ? 0.0 : c == 1 ? 1.0 : c == 2 ? 0.5 : r.uni();
      }
      centre = B.m * fc;
    }
    if (kindtag == "chain") {
      Eigen::Vector3d p = centre;
      double step = (double)hmin * r.uni(0.02, 0.2);
      for (int a = 0; a < na; ++a) { F.pos[atom0[m] + a] = p; p += step * unit(); }
    } else {
      double s = (double)rho_max * r.uni(0.05, 1.0);
      bool coincide = r.coin(0.05);
      for (int a = 0; a < na; ++a) {
        double rad = s * std::cbrt(r.uni());
        F.pos[atom0[m] + a] = coincide && a > 0 && r.coin(0.5) ? F.pos[atom0[m] + a - 1] : Eigen::Vector3d(centre + rad * unit());
      }
    }
  }
  for (int i : C.skip_atoms)  // atoms of molecules that are not mapped: anywhere
    F.pos[i] = B.kind == 0 ? Eigen::Vector3d(r.uni(-50, 50), r.uni(-50, 50), r.uni(-50, 50)) : Eigen::Vector3d(B.m * Eigen::Vector3d(r.uni(), r.uni(), r.uni()));
  if (kindtag == "oversize" || kindtag == "threshold") {
    // pick a molecule / bead with at least two parents
    std::vector<std::pair<int, int>> cand;
    for (size_t m = 0; m < C.molorder.size(); ++m)
      for (size_t b = 0; b < C.types[C.molorder[m]].beads.size(); ++b)
        if (C.types[C.molorder[m]].beads[b].parents.size() >= 2) cand.push_back({(int)m, (int)b});
    if (cand.empty()) kindtag = "compact";
    else {
      auto pr = cand[(size_t)r.range(0, (long)cand.size() - 1)];
      const BeadDef &bd = C.types[C.molorder[pr.first]].beads[pr.second];
      int a0 = atom0[pr.first];
      Eigen::Vector3d P = F.pos[a0 + bd.parents[0]];
      if (kindtag == "oversize") {
        int p = bd.parents[(size_t)r.range(1, (long)bd.parents.size() - 1)];
        for (int tries = 0; tries < 60; ++tries) {
          Eigen::Vector3d f(r.uni(-0.5, 0.5), r.uni(-0.5, 0.5), r.uni(-0.5, 0.5));
          Eigen::Vector3d d = B.m * f;
          LD dist;
          B.nearest(ld(d), dist);
          F.pos[a0 + p] = P + d;
          if (dist > 0.5L * hmin + 3 * band) break;
        }
      } else {
        int na = (int)C.types[C.molorder[pr.first]].mass.size();
        for (int a = 0; a < na; ++a) F.pos[a0 + a] = P;
        int dm = (int)r.range(0, 5);
        double delta = dm < 2 ? 1e-7 : dm < 4 ? 1e-5 : 1e-3;
        double L = 0.5 * (double)hmin * (r.coin() ? 1 - delta : 1 + delta);
        Eigen::Vector3d Q = P + L * unit();
        bool any = false;
        for (size_t i = 1; i < bd.parents.size(); ++i)
          if (r.coin(0.5) || (!any && i + 1 == bd.parents.size())) { F.pos[a0 + bd.parents[i]] = Q; any = true; }
      }
    }
  }
  // placement relative to the periodic cell
  int pm = (int)r.range(0, 19);
  F.mode = B.kind == 0 ? "open" : pm < 3 ? "whole" : pm < 10 ? "wrapped-into-cell" : "per-atom-lattice-shifts";
  if (B.kind != 0 && F.mode != "whole") {
    for (int i = 0; i < natoms; ++i) {
      V3 f = B.frac(ld(F.pos[i]));
      Eigen::Vector3d n(-(double)floorl(f.x), -(double)floorl(f.y), -(double)floorl(f.z));
      if (F.mode == "per-atom-lattice-shifts") {
        long Rr = std::max(1L, Rimg);
        if (r.coin(0.8)) n += Eigen::Vector3d((double)r.range(-Rr, Rr), (double)r.range(-Rr, Rr), (double)r.range(-Rr, Rr));
      }
      F.pos[i] += B.m * n;
    }
  }
  LD M = B.bmax;
  for (auto &p : F.pos) M = std::max(M, (LD)p.cwiseAbs().maxCoeff());
  F.M = M + B.bmax;
  F.band = 1e-9L * F.M + 1e-12L;
}

static struct sigaction g_old_abrt;
static void on_abort(int sig, siginfo_t *si, void *ctx) {
  vfh::abort_handler(sig);
  if (g_old_abrt.sa_flags & SA_SIGINFO) { if (g_old_abrt.sa_sigaction) g_old_abrt.sa_sigaction(sig, si, ctx); }
  else if (g_old_abrt.sa_handler != SIG_DFL && g_old_abrt.sa_handler != SIG_IGN) g_old_abrt.sa_handler(sig);
}

struct Got { bool hp = false, hv = false, hf = false; Eigen::Vector3d p, v, f; double m = 0; };

int main(int argc, char **argv) {
  vfh::Args A(argc, argv);
  long seed = A.num("seed", 1), shard = A.num("shard", 0), n = A.num("n", 20), first = A.num("first", 0);
  long nframes = A.num("frames", 6);
  std::string dir = A.str("dir", ".");
  {
    struct sigaction sa;
    memset(&sa, 0, sizeof sa);
    sa.sa_sigaction = on_abort;
    sa.sa_flags = SA_SIGINFO;
    sigaction(SIGABRT, &sa, &g_old_abrt);
  }
  vfh::Reporter R;
  vfh::Rng rng(1);

  for (long ic = first; ic < first + n; ++ic) {
    rng.reseed(vfh::hmix(vfh::hmix(vfh::hmix(0xC01, (uint64_t)seed), (uint64_t)shard), (uint64_t)ic));
    Case C;
    vfh::Rng q(vfh::hmix(vfh::hmix(vfh::hmix(0x7E05E, (uint64_t)seed), (uint64_t)shard), (uint64_t)ic));  // reuse features
    gen_case(rng, C, q);
    const bool vary_flags = q.coin(0.3);   // positions/velocities/forces appear and disappear between frames
    const int step_mode = (int)q.range(0, 2);  // 0: every frame has the same step and time (like .gro), 1: increasing, 2: repeats
    const bool twin = q.coin(0.5);         // second CG topology built from a second, identical atomistic topology (one per worker thread in CsgApplication)
    if (q.coin(0.3)) {  // molecules the mapping skips (--map-ignore pattern / no definition), before, between and after the mapped ones
      int ns = (int)q.range(1, 3);
      for (int i = 0; i < ns; ++i) {
        int pc = (int)q.range(0, 3);
        int before = pc == 0 ? 0 : pc == 1 ? (int)C.molorder.size() : (int)q.range(0, (long)C.molorder.size());
        C.skips.push_back({before, (int)q.range(0, (long)C.types.size() - 1), (int)q.range(0, 1)});
      }
      std::stable_sort(C.skips.begin(), C.skips.end(), [](const Case::Skip &a, const Case::Skip &b) { return a.before < b.before; });
      bool lead = false;
      for (auto &k : C.skips) if (k.before < (int)C.molorder.size()) lead = true;
      R.counter(lead ? "cases_with_unmapped_molecule_before_a_mapped_one" : "cases_with_unmapped_molecules_last");
    }
    for (auto &T : C.types) {
      std::map<std::string, int> use;
      for (auto &bd : T.beads) use[bd.mapname]++;
      for (auto &kv : use) if (kv.second > 1) R.counter("cases_with_beads_sharing_a_map");
    }
    C.tag = "c01 --seed " + std::to_string(seed) + " --shard " + std::to_string(shard) + " --first " + std::to_string(ic) + " --n 1";
    vfh::set_case(C.tag);
    // ---- atomistic topology through the API
    Topology top, top2;
    std::vector<int> atom0;
    int natoms = 0;
    auto build_atomistic = [&](Topology &tp, bool count) {
      auto add_skipped = [&](int before) {
        for (auto &k : C.skips) {
          if (k.before != before) continue;
          const MolType &T = C.types[k.type];
          Molecule *mi = tp.CreateMolecule(C.skip_name(k));
          const Residue &res = tp.CreateResidue(T.name);
          for (size_t a = 0; a < T.mass.size(); ++a) {
            if (!tp.BeadTypeExist(T.atype[a])) tp.RegisterBeadType(T.atype[a]);
            Bead *b = tp.CreateBead(Bead::spherical, "A" + std::to_string(a + 1), T.atype[a], res.getId(), T.mass[a], 0.0);
            mi->AddBead(b, "1:" + T.name + ":A" + std::to_string(a + 1));
            if (count) C.skip_atoms.push_back(natoms++);
          }
        }
      };
      for (size_t m = 0; m <= C.molorder.size(); ++m) {
        add_skipped((int)m);
        if (m == C.molorder.size()) break;
        const MolType &T = C.types[C.molorder[m]];
        Molecule *mi = tp.CreateMolecule(T.name);
        const Residue &res = tp.CreateResidue(T.name);
        if (count) atom0.push_back(natoms);
        for (size_t a = 0; a < T.mass.size(); ++a) {
          if (!tp.BeadTypeExist(T.atype[a])) tp.RegisterBeadType(T.atype[a]);
          Bead *b = tp.CreateBead(Bead::spherical, "A" + std::to_string(a + 1), T.atype[a], res.getId(), T.mass[a], 0.0);
          mi->AddBead(b, "1:" + T.name + ":A" + std::to_string(a + 1));
          if (count) ++natoms;
        }
      }
    };
    build_atomistic(top, true);
    if (twin) build_atomistic(top2, false);
    // ---- mapping through the real xml loader
    std::string files;
    std::vector<std::string> paths;
    for (size_t t = 0; t < C.types.size(); ++t) {
      std::string p = dir + "/c01_" + std::to_string(shard) + "_" + std::to_string(ic) + "_" + std::to_string(t) + ".xml";
      std::ofstream o(p);
      o << C.types[t].xml;
      o.close();
      paths.push_back(p);
      files += (t ? ";" : "") + p;
    }
    CGEngine cg;
    Topology cgtop, cgtop2;
    std::unique_ptr<TopologyMap> map, map2;
    std::string err;
    {
      Silence qs;
      try {
        cg.LoadMoleculeType(files);
        if (!C.skips.empty()) cg.AddIgnore("IGN*");
        map = cg.CreateCGTopology(top, cgtop);
        // the same engine serves a second target topology (CsgApplication: one per worker)
        map2 = cg.CreateCGTopology(twin ? top2 : top, cgtop2);
      } catch (std::exception &e) { err = e.what(); }
    }
    for (auto &p : paths) std::remove(p.c_str());
    std::vector<BeadRef> refs;
    for (size_t m = 0; m < C.molorder.size(); ++m)
      for (size_t b = 0; b < C.types[C.molorder[m]].beads.size(); ++b) refs.push_back({(int)m, C.molorder[m], (int)b, atom0[m]});
    if (!err.empty() || !map) {
      R.eval("load");
      R.violation("load/valid-mapping-refused", "LoadMoleculeType/CreateCGTopology threw on a valid generated mapping", case_json(C, nullptr, refs).s("error", err));
      continue;
    }
    if ((size_t)cgtop.BeadCount() != refs.size()) {
      R.eval("load");
      R.violation("load/cg-bead-count", "number of CG beads differs from molecules x bead definitions", case_json(C, nullptr, refs).i("got", cgtop.BeadCount()).i("want", (long long)refs.size()));
      continue;
    }
    bool names_ok = true;
    for (size_t k = 0; k < refs.size(); ++k)
      if (cgtop.getBead((votca::Index)k)->getName() != C.types[refs[k].type].beads[refs[k].bead].name) names_ok = false;
    if (!names_ok) { R.inconclusive("CG bead order differs from the definition order; monitor cannot attribute beads"); continue; }
    {
      R.eval("reuse/second-cg-topology/structure");
      bool same = cgtop2.BeadCount() == cgtop.BeadCount() && cgtop2.MoleculeCount() == cgtop.MoleculeCount() &&
                  cgtop2.BondedInteractions().size() == cgtop.BondedInteractions().size() && (bool)map2;
      for (votca::Index k = 0; same && k < cgtop.BeadCount(); ++k) {
        Bead *a = cgtop.getBead(k), *b = cgtop2.getBead(k);
        same = a->getName() == b->getName() && a->getType() == b->getType() && a->getSymmetry() == b->getSymmetry() && a->getMoleculeId() == b->getMoleculeId();
      }
      for (votca::Index i = 0; same && i < cgtop.BeadCount(); ++i)
        for (votca::Index j = i + 1; same && j < cgtop.BeadCount(); ++j)
          same = cgtop.getExclusions().IsExcluded(cgtop.getBead(i), cgtop.getBead(j)) == cgtop2.getExclusions().IsExcluded(cgtop2.getBead(i), cgtop2.getBead(j));
      if (!same) {
        R.violation("reuse/second-cg-topology/structure-differs", "a second CreateCGTopology from the same CGEngine gives different beads/molecules/bonded interactions/exclusions",
                    case_json(C, nullptr, refs).i("beads1", cgtop.BeadCount()).i("beads2", cgtop2.BeadCount()));
        continue;
      }
    }

    long cur_step = 0;
    double cur_time = 0;
    auto set_inputs_on = [&](Topology &tp, const Frame &F) {
      if (F.box_explicit)
        tp.setBox(F.B.m, F.B.kind == 0 ? BoundaryCondition::typeOpen : F.B.kind == 1 ? BoundaryCondition::typeOrthorhombic : BoundaryCondition::typeTriclinic);
      else tp.setBox(F.B.m);
      tp.setStep(cur_step);
      tp.setTime(cur_time);
      for (int i = 0; i < natoms; ++i) {
        Bead *b = tp.getBead(i);
        if (C.hasPos) b->setPos(F.pos[i]); else b->HasPos(false);
        if (C.hasVel) b->setVel(F.vel[i]); else b->HasVel(false);
        if (C.hasF) b->setF(F.f[i]); else b->HasF(false);
      }
    };
    auto set_inputs = [&](const Frame &F) {
      set_inputs_on(top, F);
      if (twin) set_inputs_on(top2, F);
    };
    auto apply_map = [&](TopologyMap &mp, std::string &what) {  // 0 ok, 1 runtime_error, 2 other exception
      Silence qs;
      try { mp.Apply(); }
      catch (std::runtime_error &e) { what = e.what(); return 1; }
      catch (std::exception &e) { what = e.what(); return 2; }
      return 0;
    };
    auto apply = [&](std::string &what) { return apply_map(*map, what); };
    auto collect_from = [&](Topology &ct, std::vector<Got> &g) {
      g.assign(refs.size(), Got());
      for (size_t k = 0; k < refs.size(); ++k) {
        Bead *b = ct.getBead((votca::Index)k);
        g[k].hp = b->HasPos(); g[k].hv = b->HasVel(); g[k].hf = b->HasF();
        if (g[k].hp) g[k].p = b->getPos();
        if (g[k].hv) g[k].v = b->getVel();
        if (g[k].hf) g[k].f = b->getF();
        g[k].m = b->getMass();
      }
    };
    auto collect = [&](std::vector<Got> &g) { collect_from(cgtop, g); };
    auto same_got = [](const Got &a, const Got &b) {
      if (a.hp != b.hp || a.hv != b.hv || a.hf != b.hf || !(a.m == b.m)) return false;
      if (a.hp && !(a.p == b.p)) return false;
      if (a.hv && !(a.v == b.v)) return false;
      if (a.hf && !(a.f == b.f)) return false;
      return true;
    };
    int prev_kind = -1;

    for (long fr = 0; fr < nframes; ++fr) {
      Frame F;
      std::string kindtag;
      gen_frame(rng, C, atom0, natoms, F, kindtag);
      if (vary_flags) {
        bool hp = q.coin(0.7), hv = q.coin(0.5), hf = q.coin(0.5);
        if (fr > 0) {
          if (hp != C.hasPos) R.counter(hp ? "frames_positions_appear" : "frames_positions_disappear");
          if (hv != C.hasVel) R.counter(hv ? "frames_velocities_appear" : "frames_velocities_disappear");
          if (hf != C.hasF) R.counter(hf ? "frames_forces_appear" : "frames_forces_disappear");
        }
        C.hasPos = hp; C.hasVel = hv; C.hasF = hf;
      }
      if (fr > 0) {
        if (step_mode == 1) { cur_step += (long)q.range(1, 1000); cur_time += q.uni(0.001, 2.0); }
        else if (step_mode == 2 && q.coin(0.5)) { cur_step = (long)q.range(0, 3); cur_time = (double)cur_step * 0.5; }
        R.counter(step_mode == 0 ? "frames_with_same_step_and_time_as_previous" : step_mode == 1 ? "frames_with_increasing_step" : "frames_with_repeating_steps");
      }
      if (prev_kind >= 0) R.counter("box_kind_transition_" + std::to_string(prev_kind) + "_to_" + std::to_string(F.B.kind));
      prev_kind = F.B.kind;
      std::vector<Expect> E(refs.size());
      LD dmax = 0;
      bool anyband = false, anyover = false;
      LD thr = 0.5L * F.B.hmin;
      for (size_t k = 0; k < refs.size(); ++k) {
        oracle_bead(C, F, refs[k], E[k]);
        dmax = std::max(dmax, E[k].dmax);
        if (F.B.kind != 0 && C.hasPos) {
          if (E[k].dmax > thr + F.band) anyover = true;
          else if (E[k].dmax >= thr - F.band) anyband = true;
        }
      }
      set_inputs(F);
      std::string what;
      int rc = apply(what);
      const bool do_second = q.coin(0.5);
      std::vector<Got> G2nd;
      int rc2nd = 0;
      if (do_second) {
        std::string w2;
        rc2nd = apply_map(*map2, w2);
        if (rc2nd == 0) collect_from(cgtop2, G2nd);
      }
      auto wit = [&](long k) {
        J w = case_json(C, &F, refs);
        w.i("frame", fr).s("frame_kind", kindtag);
        if (k >= 0) {
          const BeadRef &br = refs[(size_t)k];
          w.i("cg_bead_index", k).i("molecule_index", br.mol).s("cg_bead", C.types[br.type].beads[br.bead].name).b("ellipsoid", C.types[br.type].beads[br.bead].ellipsoid);
          w.d("oracle_max_parent_dist", (double)E[(size_t)k].dmax);
        }
        return w;
      };
      if (do_second) {
        R.eval("reuse/second-cg-topology/accept-reject");
        if (rc2nd != rc)
          R.violation("reuse/second-cg-topology/accept-reject-differs", "the map of a second CG topology made by the same CGEngine accepts/rejects the frame differently", wit(-1).i("first", rc).i("second", rc2nd).b("twin_atomistic_topology", twin));
      }
      if (rc == 2) {
        R.eval("apply");
        R.violation("apply/unexpected-exception-type", "Apply threw something other than the documented runtime_error", wit(-1).s("error", what));
        continue;
      }
      // (iv) rejection threshold
      if (F.B.kind != 0 && C.hasPos) {
        if (anyover) {
          R.eval("threshold/must-reject");
          R.counter("frames_oversize");
          uint64_t h = vfh::hdouble(vfh::hdouble(7, F.pos[0].x()), (double)dmax);
          R.nontrivial(vfh::hdouble(h, F.B.m(0, 0)));
          if (rc == 0)
            R.violation("threshold/oversize-bead-mapped", "a parent is farther than half the shortest box height from the first parent but Apply did not throw",
                        wit(-1).d("max_parent_dist", (double)dmax).d("half_hmin", (double)thr));
          if (kindtag == "threshold") R.counter("threshold_probes_just_above");
          continue;  // nothing else is defined for a rejected frame
        }
        if (anyband) {
          R.counter("dontcare_frames_within_band_of_half_box");
          continue;
        }
        R.eval("threshold/must-accept");
        if (kindtag == "threshold") R.counter("threshold_probes_just_below");
        if (rc == 1) {
          R.violation("threshold/valid-bead-rejected", "all parents are within half the shortest box height of the first parent but Apply threw",
                      wit(-1).d("max_parent_dist", (double)dmax).d("half_hmin", (double)thr).s("error", what));
          continue;
        }
      } else if (rc == 1) {
        R.eval("threshold/must-accept");
        R.violation("threshold/valid-bead-rejected", "Apply threw for an open box / a frame without positions", wit(-1).s("error", what));
        continue;
      }
      std::vector<Got> G;
      collect(G);
      if (F.B.kind != 0 && cgtop.getBox() != F.B.m) {
        R.violation("box/not-propagated", "CG topology box differs from the frame's box after Apply", wit(-1));
      }
      if (do_second && rc2nd == 0 && !vary_flags) {
        for (size_t k = 0; k < refs.size(); ++k) {
          R.eval("reuse/second-cg-topology");
          if (!same_got(G[k], G2nd[k]))
            R.violation("reuse/second-cg-topology/result-differs", "two CG topologies created by the same CGEngine map the same frame differently",
                        wit((long)k).b("twin_atomistic_topology", twin).vec("first_pos", vv(G[k].hp ? G[k].p : Eigen::Vector3d(0, 0, 0))).vec("second_pos", vv(G2nd[k].hp ? G2nd[k].p : Eigen::Vector3d(0, 0, 0))).d("first_mass", G[k].m).d("second_mass", G2nd[k].m));
        }
      }
      if (q.coin(0.5)) {  // the same frame mapped once more by the same TopologyMap
        std::string wi;
        int rci = apply(wi);
        std::vector<Got> Gi;
        if (rci == 0) collect(Gi);
        for (size_t k = 0; k < refs.size(); ++k) {
          R.eval("reuse/idempotence");
          if (rci != 0 || !same_got(G[k], Gi[k])) {
            R.violation("reuse/idempotence", "mapping the same frame a second time with the same TopologyMap changes the result", wit((long)k).i("second_apply_rc", rci));
            break;
          }
        }
      }
      for (size_t k = 0; k < refs.size(); ++k) {
        // observation only: the statement defines no value when the parents carry none in this frame
        if (!C.hasPos && G[k].hp) R.counter("observed_only_cg_bead_keeps_position_of_earlier_frame_when_parents_have_none");
        if (!C.hasVel && G[k].hv) R.counter("observed_only_cg_bead_keeps_velocity_of_earlier_frame_when_parents_have_none");
        if (!C.hasF && G[k].hf) R.counter("observed_only_cg_bead_keeps_force_of_earlier_frame_when_parents_have_none");
      }
      // ---- oracle comparison, bead by bead
      for (size_t k = 0; k < refs.size(); ++k) {
        const BeadDef &bd = C.types[refs[k].type].beads[refs[k].bead];
        const Expect &e = E[k];
        const Got &g = G[k];
        std::string fam = bd.ellipsoid ? "ellipsoid" : "sphere";
        R.eval(fam);
        R.counter(std::string("flags_pos") + (C.hasPos ? "1" : "0") + "_vel" + (C.hasVel ? "1" : "0") + "_force" + (C.hasF ? "1" : "0"));
        LD kk = e.kw * e.kw;
        LD tolp = 32 * EPS * (e.np + 4) * kk * F.M;
        if (C.hasPos) {
          if (!g.hp) R.violation(fam + "/position-not-set", "parents have positions but the CG bead has none", wit((long)k));
          else if (!(norm(ld(g.p) - e.pos) <= tolp))
            R.violation(fam + "/position", "CG position differs from the weight-normalised sum over the parents unwrapped to the image nearest the first parent",
                        wit((long)k).vec("got", vv(g.p)).vec("want", vv(e.pos)).d("tol", (double)tolp));
          if (e.unwrapped) {
            uint64_t h = 31;
            for (auto &u : e.up) h = vfh::hdouble(vfh::hdouble(h, (double)u.x), (double)u.z);
            for (double w : bd.w) h = vfh::hdouble(h, w);
            R.nontrivial(h);
            R.counter("beads_with_unwrapped_parent");
          }
          // (iii) bounding box of the positively weighted unwrapped parents and barycentric identity, on the real output
          if (g.hp && e.nonneg) {
            R.eval("meta/hull");
            V3 lo{1e300L, 1e300L, 1e300L}, hi{-1e300L, -1e300L, -1e300L}, bary{0, 0, 0};
            for (int i = 0; i < e.np; ++i) {
              bary = bary + e.wn[i] * (e.up[i] - ld(g.p));
              if (e.wn[i] <= 0) continue;
              lo = {std::min(lo.x, e.up[i].x), std::min(lo.y, e.up[i].y), std::min(lo.z, e.up[i].z)};
              hi = {std::max(hi.x, e.up[i].x), std::max(hi.y, e.up[i].y), std::max(hi.z, e.up[i].z)};
            }
            V3 p = ld(g.p);
            bool inside = p.x >= lo.x - tolp && p.x <= hi.x + tolp && p.y >= lo.y - tolp && p.y <= hi.y + tolp && p.z >= lo.z - tolp && p.z <= hi.z + tolp;
            if (!inside) R.violation(fam + "/outside-hull", "non-negative weights but the CG bead lies outside the bounding box of its unwrapped parents", wit((long)k).vec("got", vv(g.p)).vec("lo", vv(lo)).vec("hi", vv(hi)));
            if (!(norm(bary) <= tolp)) R.violation(fam + "/barycentric-identity", "sum_i w_i (r_i - R) != 0 for the mapped position R", wit((long)k).vec("got", vv(g.p)).vec("residual", vv(bary)));
          }
        }
        if (C.hasVel) {
          LD tolv = 32 * EPS * (e.np + 4) * kk * e.vmax;
          if (!g.hv) R.violation(fam + "/velocity-not-set", "parents have velocities but the CG bead has none", wit((long)k));
          else if (!(norm(ld(g.v) - e.vel) <= tolv)) R.violation(fam + "/velocity", "CG velocity differs from the weight-normalised sum", wit((long)k).vec("got", vv(g.v)).vec("want", vv(e.vel)).d("tol", (double)tolv));
        }
        if (C.hasF) {
          LD tolf = 32 * EPS * (e.np + 4) * (e.kw + e.kd) * e.fscale;
          if (!g.hf) R.violation(fam + "/force-not-set", "parents have forces but the CG bead has none", wit((long)k));
          else if (!(norm(ld(g.f) - e.f) <= tolf)) R.violation(fam + "/force", "CG force differs from the (d/w)-weighted sum of the parent forces", wit((long)k).vec("got", vv(g.f)).vec("want", vv(e.f)).d("tol", (double)tolf));
          if (bd.has_d) R.counter("beads_with_d_vector");
        }
        if (!bd.ellipsoid) {
          if (!(fabsl((LD)g.m - e.mass) <= 8 * EPS * e.np * e.msum)) R.violation("sphere/mass", "CG mass differs from the sum of the parent masses", wit((long)k).d("got", g.m).d("want", (double)e.mass));
        } else {
          // own key: the statement's "its mass the sum of the parent masses" covers every CG bead
          if (!(fabsl((LD)g.m - e.mass) <= 8 * EPS * e.np * e.msum)) R.violation("ellipsoid/mass", "mass of an ellipsoidal CG bead differs from the sum of the parent masses", wit((long)k).d("got", g.m).d("want", (double)e.mass));
        }
        bool zero_w = false;
        for (double w : bd.w) if (w == 0) zero_w = true;
        if (zero_w) R.counter("beads_with_zero_weight_parent");
        if (!e.nonneg) R.counter("beads_with_negative_weight");
        if (R.want_sample() && e.unwrapped && k % 3 == 0 && fr % 2 == 1) {
          J s = wit((long)k);
          s.vec("got_pos", vv(g.p)).vec("want_pos", vv(e.pos)).d("got_mass", g.m).d("want_mass", (double)e.mass);
          R.sample(s);
        }
      }
      if (!C.hasPos) continue;
      // ---- (i) displace parents by whole lattice vectors
      if (F.B.kind != 0 && rng.coin(0.6)) {
        Frame F2 = F;
        std::vector<char> moved(natoms, 0);
        long Rr = rng.coin(0.25) ? 10000 : 3;
        LD M2 = F.M;
        for (int i = 0; i < natoms; ++i)
          if (rng.coin()) {
            Eigen::Vector3d nn((double)rng.range(-Rr, Rr), (double)rng.range(-Rr, Rr), (double)rng.range(-Rr, Rr));
            F2.pos[i] += F.B.m * nn;
            moved[i] = 1;
            M2 = std::max(M2, (LD)F2.pos[i].cwiseAbs().maxCoeff() + F.B.bmax);
          }
        // frames whose acceptance could flip at the larger magnitude are not judged
        LD band2 = 1e-9L * M2 + 1e-12L;
        if (dmax < thr - band2) {
          set_inputs(F2);
          std::string w2;
          int rc2 = apply(w2);
          if (rc2 != 0) {
            R.eval("meta/lattice-shift");
            R.violation("meta/lattice-shift-rejected", "frame accepted, but rejected after parents were displaced by whole box vectors", wit(-1).raw("shifted_pos", "\"see shifted frame\"").s("error", w2));
          } else {
            std::vector<Got> G2;
            collect(G2);
            for (size_t k = 0; k < refs.size(); ++k) {
              const BeadDef &bd = C.types[refs[k].type].beads[refs[k].bead];
              if (moved[refs[k].atom0 + bd.parents[0]]) continue;  // the statement speaks about non-first parents
              bool any = false;
              for (size_t i = 1; i < bd.parents.size(); ++i) if (moved[refs[k].atom0 + bd.parents[i]]) any = true;
              if (!any) continue;
              R.eval("meta/lattice-shift");
              LD tol = 32 * EPS * (E[k].np + 4) * E[k].kw * E[k].kw * (F.M + M2);
              if (!G2[k].hp || !(norm(ld(G2[k].p) - ld(G[k].p)) <= tol)) {
                J w = wit((long)k);
                std::vector<int> mv;
                for (size_t i = 0; i < bd.parents.size(); ++i) if (moved[refs[k].atom0 + bd.parents[i]]) mv.push_back(refs[k].atom0 + bd.parents[i]);
                std::ostringstream sp;
                sp << std::setprecision(17) << "[";
                for (int i = 0; i < natoms; ++i) sp << (i ? "," : "") << "[" << F2.pos[i].x() << "," << F2.pos[i].y() << "," << F2.pos[i].z() << "]";
                sp << "]";
                w.vec("displaced_atoms", mv).raw("pos_after_displacement", sp.str()).vec("before", vv(G[k].p)).vec("after", vv(G2[k].p));
                R.violation("meta/lattice-shift-changes-bead", "mapped position changed when non-first parents were displaced by whole box vectors", w);
              }
            }
          }
        } else R.counter("dontcare_lattice_shift_near_half_box");
      }
      // ---- (ii) rigid translation of all atoms
      if (rng.coin(0.5)) {
        Frame F3 = F;
        double ts = rng.coin(0.2) ? 1e4 : rng.coin() ? 1.0 : 30.0;
        Eigen::Vector3d t(ts * rng.uni(-1, 1), ts * rng.uni(-1, 1), ts * rng.uni(-1, 1));
        for (int i = 0; i < natoms; ++i) F3.pos[i] += t;
        LD M3 = F.M + (LD)t.cwiseAbs().maxCoeff();
        LD band3 = 1e-9L * M3 + 1e-12L;
        if (F.B.kind == 0 || dmax < thr - band3) {
          set_inputs(F3);
          std::string w3;
          int rc3 = apply(w3);
          if (rc3 != 0) {
            R.eval("meta/translation");
            R.violation("meta/translation-rejected", "frame accepted, but rejected after a rigid translation of all atoms", wit(-1).vec("translation", vv(t)).s("error", w3));
          } else {
            std::vector<Got> G3;
            collect(G3);
            for (size_t k = 0; k < refs.size(); ++k) {
              R.eval("meta/translation");
              // parents: each r_i + t is rounded (eps*M3 each); the sum then carries (np+4) roundings
              LD tol = 32 * EPS * (E[k].np + 4) * E[k].kw * E[k].kw * (F.M + M3);
              if (!G3[k].hp || !(norm(ld(G3[k].p) - (ld(G[k].p) + ld(t))) <= tol))
                R.violation("meta/translation-not-followed", "mapped position does not follow a rigid translation of all atoms", wit((long)k).vec("translation", vv(t)).vec("before", vv(G[k].p)).vec("after", vv(G3[k].p)));
              if (C.hasVel && G3[k].hv && G[k].hv && !(G3[k].v == G[k].v))
                R.violation("meta/translation-changes-velocity", "mapped velocity changed under a rigid translation", wit((long)k).vec("translation", vv(t)));
              if (C.hasF && G3[k].hf && G[k].hf && !(G3[k].f == G[k].f))
                R.violation("meta/translation-changes-force", "mapped force changed under a rigid translation", wit((long)k).vec("translation", vv(t)));
            }
          }
        } else R.counter("dontcare_translation_near_half_box");
      }
    }
  }
  R.summary();
  return 0;
}
