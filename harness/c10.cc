// C10 monitor process: the real xtp ProgObserver<std::vector<Job>> + Job I/O
// + ParallelXJobCalc<std::vector<Job>> (parallelxjobcalc.cc compiled unchanged,
// libint2::initialize/finalize stubbed) driven through a stub calculator whose
// EvalJob only writes the ledger, see DESIGN.md §5 C10.
//
//   c10 worker --jobs jobs.xml --file lockfile --threads T --cache C --maxjobs M
//              --restart PATTERN --ledger FILE --seed S [--failprob p]
//              [--delay-prob p --delay-maxus n]
//              [--crash-target job|backup --crash-at N]
//              [--pause-kind K --pause-occ n --pause-dir DIR]
//              [--evalus n]
// Every execution appends "S pid tid id nonce" before and "D pid tid id nonce
// status" after the evaluation to the ledger (one write() per line, O_APPEND).
#include "vfh.h"
#include <atomic>
#include <boost/program_options.hpp>
#include <dlfcn.h>
#include <fcntl.h>
#include <signal.h>
#include <sys/stat.h>
#include <sys/uio.h>
#include <votca/tools/verif_hook.h>
#include <votca/xtp/job.h>
#include <votca/xtp/parallelxjobcalc.h>
#include <votca/xtp/progressobserver.h>
#include <votca/xtp/qmthread.h>

using namespace votca;
using namespace votca::xtp;

// ------------------------------------------------------------------ crash shim
static std::string g_crash_path;        // absolute path of the file whose writes are budgeted
static std::atomic<long> g_crash_budget{-1};
static std::atomic<long> g_written{0};  // bytes written so far to g_crash_path (all writes of this process)
static std::string g_count_file;        // if set: report bytes written to job file / backup at exit

static bool fd_is(int fd, const std::string &path) {
  if (path.empty()) return false;
  char lnk[64], buf[4096];
  snprintf(lnk, sizeof lnk, "/proc/self/fd/%d", fd);
  ssize_t n = readlink(lnk, buf, sizeof buf - 1);
  if (n <= 0) return false;
  buf[n] = 0;
  return path == buf;
}
typedef ssize_t (*write_t)(int, const void *, size_t);
typedef ssize_t (*writev_t)(int, const struct iovec *, int);
static write_t real_write() { static write_t f = (write_t)dlsym(RTLD_NEXT, "write"); return f; }

static void crash_now() {
  // a process kill: no destructors, no flush
  kill(getpid(), SIGKILL);
  _exit(137);
}

extern "C" ssize_t write(int fd, const void *buf, size_t n) {
  if (fd > 2 && !g_crash_path.empty() && fd_is(fd, g_crash_path)) {
    long budget = g_crash_budget.load();
    long w = g_written.load();
    if (budget >= 0 && w + (long)n >= budget) {
      long part = budget - w;
      if (part > 0) real_write()(fd, buf, (size_t)part);
      crash_now();
    }
    g_written += (long)n;
  }
  return real_write()(fd, buf, n);
}
extern "C" ssize_t writev(int fd, const struct iovec *iov, int cnt) {
  // route through write() so that the byte budget sees every byte
  ssize_t tot = 0;
  for (int i = 0; i < cnt; ++i) {
    ssize_t r = write(fd, iov[i].iov_base, iov[i].iov_len);
    if (r < 0) return tot ? tot : r;
    tot += r;
    if ((size_t)r < iov[i].iov_len) break;
  }
  return tot;
}

// ------------------------------------------------------------------ hook run-time: delays + pause points
static double g_dprob = 0;
static long g_dmaxus = 0;
static int g_pause_kind = 0, g_pause_occ = 1;
static std::string g_pause_dir;
static std::atomic<int> g_kind_count[32];
static std::atomic<uint64_t> g_hook_rng{88172645463325252ULL};
static std::atomic<long> g_sync_events{0};
static int g_crash_sync = 0;  // >0: the byte budget applies to the writes of the K-th synchronisation only
static long g_crash_budget_cfg = -1;

extern "C" void votca_verif_event(int kind, const void *, long) {
  if (kind < VV_SYNC_LOCKED || kind >= 32) return;
  ++g_sync_events;
  int occ = ++g_kind_count[kind];
  if (g_crash_sync > 0 && kind == VV_SYNC_LOCKED) {
    if (occ == g_crash_sync) { g_written.store(0); g_crash_budget.store(g_crash_budget_cfg); }
    else g_crash_budget.store(-1);
  }
  if (kind == g_pause_kind && occ == g_pause_occ && !g_pause_dir.empty()) {
    std::string p = g_pause_dir + "/paused", g = g_pause_dir + "/go";
    int fd = open(p.c_str(), O_CREAT | O_WRONLY, 0644);
    if (fd >= 0) close(fd);
    struct stat st;
    for (int i = 0; i < 30000 && stat(g.c_str(), &st) != 0; ++i) usleep(1000);
  }
  if (g_dprob > 0) {
    uint64_t x = g_hook_rng.load();
    x ^= x << 13; x ^= x >> 7; x ^= x << 17;
    g_hook_rng.store(x);
    if ((x >> 11) * (1.0 / 9007199254740992.0) < g_dprob) usleep((useconds_t)(1 + (x >> 20) % (uint64_t)std::max(1L, g_dmaxus)));
  }
}

// ------------------------------------------------------------------ stub calculator
static int g_ledger = -1;
static std::atomic<long> g_nonce{0};
static double g_failprob = 0;
static long g_evalus = 0;
static void ledger(const char *tag, long tid, long id, long nonce, const char *extra = "") {
  char line[160];
  int n = snprintf(line, sizeof line, "%s %d %ld %ld %ld %s\n", tag, (int)getpid(), tid, id, nonce, extra);
  (void)!real_write()(g_ledger, line, (size_t)n);
}

typedef ProgObserver<std::vector<Job>> Obs;
// the real thread pool and worker loop (ParallelXJobCalc::Evaluate / JobOperator::Run); only EvalJob is ours. "D" is
// written at the end of EvalJob: the worker loop reports the result to the observer right afterwards (in memory only, the
// job file is written by a later synchronisation), so the ledger semantics "D = evaluated, result handed over" is kept.
class StubCalc : public ParallelXJobCalc<std::vector<Job>> {
 public:
  explicit StubCalc(uint64_t seed, long T) {
    for (long i = 0; i < T; ++i) rng_.emplace_back((uint64_t)(seed * 131 + i + 7));
  }
  std::string Identify() const override { return "c10stub"; }
  void WriteJobFile(const Topology &) override {}
  void ReadJobFile(Topology &) override {}
  void CustomizeLogger(QMThread &t) override {
    ParallelXJobCalc<std::vector<Job>>::CustomizeLogger(t);
    t.getLogger().setReportLevel(Log::error);
  }
  Job::JobResult EvalJob(const Topology &, Job &job, QMThread &th) override {
    vfh::Rng &rng = rng_.at((size_t)th.getId());
    long nonce = (long)getpid() * 1000000L + (++g_nonce);
    ledger("S", th.getId(), job.getId(), nonce);
    if (g_evalus > 0) usleep((useconds_t)(rng.next() % (uint64_t)g_evalus));
    Job::JobResult res;
    bool fail = rng.uni() < g_failprob;
    res.setStatus(fail ? Job::FAILED : Job::COMPLETE);
    res.setOutput("nonce=" + std::to_string(nonce) + ";id=" + std::to_string(job.getId()));
    if (fail) res.setError("stub failure nonce=" + std::to_string(nonce));
    ledger("D", th.getId(), job.getId(), nonce, fail ? "FAILED" : "COMPLETE");
    return res;
  }

 protected:
  void ParseSpecificOptions(const tools::Property &) override {}

 private:
  std::vector<vfh::Rng> rng_;
};

static std::string abspath(const std::string &p) {
  char buf[4096];
  if (realpath(p.c_str(), buf)) return buf;
  return p;
}

int main(int argc, char **argv) {
  vfh::Args A(argc, argv);
  std::string file = abspath(A.str("jobs"));
  std::string lockfile = abspath(A.str("file"));
  long T = A.num("threads", 1), seed = A.num("seed", 1);
  g_failprob = A.real("failprob", 0);
  g_evalus = A.num("evalus", 0);
  g_dprob = A.real("delay-prob", 0);
  g_dmaxus = A.num("delay-maxus", 200);
  g_pause_kind = (int)A.num("pause-kind", 0);
  g_pause_occ = (int)A.num("pause-occ", 1);
  g_pause_dir = A.str("pause-dir");
  g_hook_rng.store(0x9e3779b97f4a7c15ULL * (uint64_t)(seed + 1) + (uint64_t)getpid());
  g_ledger = open(A.str("ledger").c_str(), O_WRONLY | O_CREAT | O_APPEND, 0644);
  std::string ct = A.str("crash-target");
  std::string count_target = A.str("count-target");
  if (ct == "job" || count_target == "job") g_crash_path = file;
  if (ct == "backup" || count_target == "backup") g_crash_path = file + "~";
  g_crash_sync = (int)A.num("crash-sync", 0);
  g_crash_budget_cfg = A.num("crash-at", -1);
  if (!ct.empty() && g_crash_sync == 0) g_crash_budget.store(g_crash_budget_cfg);

  namespace po = boost::program_options;
  po::options_description d;
  d.add_options()("file", po::value<std::string>())("cache", po::value<Index>())("maxjobs", po::value<Index>())("restart", po::value<std::string>());
  std::vector<std::string> av = {"--file", lockfile, "--cache", A.str("cache", "8"), "--maxjobs", A.str("maxjobs", "-1"), "--restart", A.str("restart", "")};
  po::variables_map vm;
  po::store(po::command_line_parser(av).options(d).run(), vm);
  po::notify(vm);

  int rc = 0;
  try {
    Obs obs;
    obs.InitCmdLineOpts(vm);
    StubCalc calc((uint64_t)seed, T);
    calc.setnThreads(T);
    calc.setOpenMPThreads(1);
    calc.setProgObserver(&obs);
    tools::Property opts;
    opts.add("job_file", file);
    opts.add("map_file", "");
    calc.Initialize(opts);
    // the topology is only handed through to EvalJob (which ignores it): no object is constructed
    alignas(64) static char topbuf[sizeof(Topology)];
    calc.EvaluateFrame(*reinterpret_cast<const Topology *>(topbuf));
  } catch (std::exception &e) {
    fprintf(stderr, "c10 worker %d: exception: %s\n", (int)getpid(), e.what());
    ledger("X", -1, -1, -1, "exception");
    rc = 4;
  }
  if (A.has("report")) {
    vfh::J j;
    j.s("t", "worker").i("pid", getpid()).i("bytes_to_target", g_written.load()).i("sync_events", g_sync_events.load()).i("rc", rc);
    std::cout << "\n" << j.str() << std::endl;
  }
  return rc;
}
